"""Sidecar contracts for the symbol tables of handlers/obfuscation.py (property C07): Scope / CatchScope.

C07 needs the renaming to be *capture free*: the name a scope gives one of its own symbols must not be a name that means
something else inside that scope.  The code gets there by reserving, before it generates names for a scope, (a) every free
("global") name used in the scope or below it and (b) the new name of every outer symbol used in the scope or below it --
uses below reach the scope because `close()` hands every leaked reference to the parent.  The functions that compute these
sets are under contract here, for arbitrary set / dict contents (z3 arrays String -> Bool / Int, no bound on the number of
symbols).  The neighbours of the scope under verification (parent, children) are doubles whose set-valued attributes are
arbitrary sets: the induction hypothesis over the scope tree.

  Scope.declare / reference           the symbol tables after the call, every other entry unchanged
  Scope.declared_symbols              own declarations plus the parent's declared symbols
  Scope.global_symbols                referenced, and declared neither here nor in any enclosing scope
  Scope.non_local_symbols             referenced and not declared here
  Scope.leaked_referenced_symbols     the table restricted to the non-local symbols, counts kept
  Scope.global_symbols_in_children    union over the children of their global symbols (direct and below)
  Scope.close                         every leaked symbol is referenced in the parent with its count, once; closing twice raises
  Scope._reserved_symbols             contains (a) and (b) above
  CatchScope.declared_symbols / non_local_symbols / local_declared_symbols / reference / close
"""
import z3

from vf.pyvc.dsl import Contract, Loop, Const, OneOf, Helper, PExt, PObj, PList, Str, Int, Bool, SBool, SInt, SStr, MapStrInt, Obj
from vf.pyvc.engine import PAbsSeq, PSymSet, SetStr, PMap

MOD = 'calmjs.parse.handlers.obfuscation'
S, B, I = z3.StringSort(), z3.BoolSort(), z3.IntSort()


class Const0List(object):
    """a children list with some earlier children (opaque doubles)"""

    def make(self, name):
        return PList([PObj(object, name='earlier_child')])

    def __repr__(self):
        return 'children'


def build(mod):
    cs = []
    rec = {}

    def reset():
        rec.clear()
        rec['log'] = []

    def count(e, what):
        return len([x for x in rec['log'] if x[0] == what])
    base_env = {'__reset__': reset, 'calls': Helper(count)}

    class Parent(object):
        """double of the enclosing scope: its set-valued attributes are arbitrary sets (induction hypothesis)"""

        def __init__(self, recording=False):
            self.recording = recording

        def make(self, name):
            p = PObj(object, name='parent')
            p.fields['declared_symbols'] = SetStr().fresh('parent_declared')
            p.fields['local_declared_symbols'] = SetStr().fresh('parent_local_declared')
            p.fields['referenced_symbols'] = MapStrInt().fresh('parent_referenced')
            p.fields['reference'] = PExt('Scope.reference', lambda e, a, k: rec['log'].append(('parent.reference', list(a), dict(k))))
            p.fields['declare'] = PExt('Scope.declare', lambda e, a, k: rec['log'].append(('parent.declare', list(a), dict(k))))
            return p

        def __repr__(self):
            return 'Parent'
    PARENT = OneOf(Const(None), Parent())

    def scope(parent=PARENT, **extra):
        fields = {'local_declared_symbols': SetStr(), 'referenced_symbols': MapStrInt(), 'parent': parent, '_closed': Bool}
        fields.update(extra)
        return Obj(mod.Scope, fields)

    def same_map_except(e, new, old, key):
        """new == old except at `key` (domain and values)"""
        k = z3.FreshConst(S, 'k')
        return SBool(z3.ForAll([k], z3.Implies(k != key.t, z3.And(z3.Select(new.dom, k) == z3.Select(old.dom, k),
                                                                  z3.Select(new.val, k) == z3.Select(old.val, k)))))

    def same_map(e, new, old):
        k = z3.FreshConst(S, 'k')
        return SBool(z3.ForAll([k], z3.And(z3.Select(new.dom, k) == z3.Select(old.dom, k),
                                           z3.Implies(z3.Select(old.dom, k), z3.Select(new.val, k) == z3.Select(old.val, k)))))
    menv = dict(base_env, same_map_except=Helper(same_map_except), same_map=Helper(same_map))

    # ---- declare / reference -----------------------------------------------------------------
    cs.append(Contract(MOD + ':Scope.declare', params={'self': scope(), 'symbol': Str},
                       ensures=['self.local_declared_symbols == old(self.local_declared_symbols) | {symbol}',
                                'symbol in self.referenced_symbols',
                                'self.referenced_symbols[symbol] == (old(self.referenced_symbols)[symbol] if symbol in old(self.referenced_symbols) else 0)',
                                'same_map_except(self.referenced_symbols, old(self.referenced_symbols), symbol)',
                                'result is None'],
                       modifies=['self.local_declared_symbols', 'self.referenced_symbols'], env=menv))
    for explicit in (True, False):
        params = {'self': scope(), 'symbol': Str}
        if explicit:
            params['count'] = Int
        n = 'count' if explicit else '1'
        cs.append(Contract(MOD + ':Scope.reference', params=params, notes='count %s' % ('given' if explicit else 'defaulted'),
                           ensures=['self.local_declared_symbols == old(self.local_declared_symbols)',
                                    'symbol in self.referenced_symbols',
                                    'self.referenced_symbols[symbol] == (old(self.referenced_symbols)[symbol] if symbol in old(self.referenced_symbols) else 0) + %s' % n,
                                    'same_map_except(self.referenced_symbols, old(self.referenced_symbols), symbol)',
                                    'result is None'],
                           modifies=['self.referenced_symbols'], env=menv))

    # ---- the derived sets --------------------------------------------------------------------
    outer = '(self.parent.declared_symbols if self.parent is not None else set())'
    cs.append(Contract(MOD + ':Scope.declared_symbols', params={'self': scope()},
                       ensures=['result == self.local_declared_symbols | %s' % outer], env=base_env))
    cs.append(Contract(MOD + ':Scope.global_symbols', params={'self': scope()},
                       ensures=['result == set(self.referenced_symbols) - self.local_declared_symbols - %s' % outer,
                                'same_map(self.referenced_symbols, old(self.referenced_symbols))'], env=menv))
    cs.append(Contract(MOD + ':Scope.non_local_symbols', params={'self': scope()},
                       ensures=['result == set(self.referenced_symbols) - self.local_declared_symbols'], env=base_env))

    def restricted(e, res, table, keep):
        """res is `table` restricted to the keys in `keep`"""
        k = z3.FreshConst(S, 'k')
        return SBool(z3.ForAll([k], z3.And(z3.Select(res.dom, k) == z3.And(z3.Select(table.dom, k), z3.Select(keep.arr, k)),
                                           z3.Implies(z3.Select(res.dom, k), z3.Select(res.val, k) == z3.Select(table.val, k)))))
    cs.append(Contract(MOD + ':Scope.leaked_referenced_symbols', params={'self': scope()},
                       ensures=['restricted(result, self.referenced_symbols, set(self.referenced_symbols) - self.local_declared_symbols)'],
                       env=dict(base_env, restricted=Helper(restricted))))

    # ---- children ----------------------------------------------------------------------------
    def child(i):
        ch = PObj(object, name='child%d' % i)
        ch.fields['global_symbols'] = SetStr().fresh('child%d_globals' % i)
        ch.fields['global_symbols_in_children'] = SetStr().fresh('child%d_globals_below' % i)
        return ch

    for n in (0, 1, 3):
        class Children(object):
            def __init__(self, n=n):
                self.n = n

            def make(self, name):
                return PList([child(i) for i in range(self.n)])

            def __repr__(self):
                return '%d children' % self.n
        union = ' | '.join(['self.children[%d].global_symbols | self.children[%d].global_symbols_in_children' % (i, i) for i in range(n)]) or 'set()'
        cs.append(Contract(MOD + ':Scope.global_symbols_in_children', params={'self': scope(children=Children())},
                           ensures=['result == %s' % union], env=base_env, notes='%d children' % n))

    # ---- close -------------------------------------------------------------------------------
    class Keep(object):
        """the parent double keeps its state in the ghost log; nothing of self changes in the loop"""
        def havoc_obj(self, eng, obj, tag):
            pass

    def last_reference_is(e, symbol, c):
        xs = [x for x in rec['log'] if x[0] == 'parent.reference']
        if not xs:
            return False
        a, k = xs[-1][1], xs[-1][2]
        got_c = a[1] if len(a) > 1 else k.get('count', 1)
        return a[0] is symbol and got_c is c
    def iterated_leaked(e, scope_):
        """the loop of close() ran over exactly one table: the referenced symbols that are not declared here, with their counts"""
        if len(e.iter_log) != 1:
            return False
        m = e.iter_log[0]
        t, own = scope_.fields['referenced_symbols'], scope_.fields['local_declared_symbols']
        k = z3.FreshConst(S, 'k')
        return SBool(z3.ForAll([k], z3.And(z3.Select(m.dom, k) == z3.And(z3.Select(t.dom, k), z3.Not(z3.Select(own.arr, k))),
                                           z3.Implies(z3.Select(m.dom, k), z3.Select(m.val, k) == z3.Select(t.val, k)))))
    cenv = dict(base_env, last_reference_is=Helper(last_reference_is), iterated_leaked=Helper(iterated_leaked))
    step = ['''
assert calls('parent.reference') == 1, 'one reference per leaked symbol'
assert last_reference_is(symbol, c), 'the parent is told the symbol and its count'
assert symbol in self.referenced_symbols and symbol not in self.local_declared_symbols, 'only symbols referenced and not declared here leak'
assert self.referenced_symbols[symbol] == c, 'with the count of this scope'
''']
    loop = Loop(inv=['True'], types={'symbol': Str, 'c': Int, 'self': Keep()}, ghost_step=step)
    for closed in (True, False):
        for has_parent in (True, False):
            p = scope(parent=(Parent() if has_parent else Const(None)), _closed=Const(closed))
            note = '%s, %s parent' % ('already closed' if closed else 'open', 'with' if has_parent else 'no')
            if closed:
                cs.append(Contract(MOD + ':Scope.close', params={'self': p}, raises={'ValueError': True},
                                   ensures=['False'], env=cenv, notes=note))
            else:
                cs.append(Contract(MOD + ':Scope.close', params={'self': p},
                                   ensures=['self._closed is True', 'result is None'] + (['iterated_leaked(self)'] if has_parent else ["calls('parent.reference') == 0"]),
                                   modifies=['self._closed'], env=cenv, loops=([loop] if has_parent else []), notes=note))

    # ---- _reserved_symbols -------------------------------------------------------------------
    RES = z3.Function('resolved_name', S, S)       # what Scope.resolve answers (its own contract is in contracts/obfuscation.py)

    def resolved_non_locals_in(e, result, table, own):
        """every symbol referenced here and not in `own` has its resolved name in `result`"""
        w = z3.FreshConst(S, 'w')
        return SBool(z3.ForAll([w], z3.Implies(z3.And(z3.Select(table.dom, w), z3.Not(z3.Select(e.set_array(own), w))),
                                               z3.Select(result.arr, RES(w)))))
    renv = dict(base_env, resolved_non_locals_in=Helper(resolved_non_locals_in))
    resolve = PExt('Scope.resolve', lambda e, a, k: SStr(RES(a[0].t)))
    for n in (0, 2):
        class Children2(object):
            def __init__(self, n=n):
                self.n = n

            def make(self, name):
                return PList([child(i) for i in range(self.n)])

            def __repr__(self):
                return '%d children' % self.n

        class Resolver(object):
            def make(self, name):
                return resolve
        below = ['self.children[%d].global_symbols <= result and self.children[%d].global_symbols_in_children <= result' % (i, i) for i in range(n)]
        cs.append(Contract(MOD + ':Scope._reserved_symbols', params={'self': scope(children=Children2(), resolve=Resolver())},
                           ensures=['(set(self.referenced_symbols) - self.local_declared_symbols - %s) <= result' % outer,
                                    'resolved_non_locals_in(result, self.referenced_symbols, self.local_declared_symbols)'] + below,
                           env=renv, notes='%d children' % n))

        # ---- CatchScope ----------------------------------------------------------------------
        def catch(children=Children2(), **extra):
            fields = {'catch_symbol': Str, 'catch_symbol_usage': Int, 'parent': Parent(), '_closed': Bool, 'children': children, 'resolve': Resolver()}
            fields.update(extra)
            return Obj(mod.CatchScope, fields)
        cs.append(Contract(MOD + ':Scope._reserved_symbols', params={'self': catch()},
                           ensures=['(set(self.parent.referenced_symbols) - {self.catch_symbol} - self.parent.declared_symbols) <= result',
                                    'resolved_non_locals_in(result, self.parent.referenced_symbols, {self.catch_symbol})'] + below,
                           env=renv, notes='catch scope, %d children' % n))

    def catch0(**extra):
        fields = {'catch_symbol': Str, 'catch_symbol_usage': Int, 'parent': Parent(), '_closed': Bool}
        fields.update(extra)
        return Obj(mod.CatchScope, fields)

    def catch_table(e, res, parent_table, sym, usage):
        k = z3.FreshConst(S, 'k')
        return SBool(z3.ForAll([k], z3.And(
            z3.Select(res.dom, k) == z3.Or(k == sym.t, z3.Select(parent_table.dom, k)),
            z3.Implies(z3.Select(parent_table.dom, k), z3.Select(res.val, k) == z3.Select(parent_table.val, k)),
            z3.Implies(z3.And(k == sym.t, z3.Not(z3.Select(parent_table.dom, k))), z3.Select(res.val, k) == Int.unwrap(usage)))))
    cs.append(Contract(MOD + ':CatchScope.referenced_symbols', params={'self': catch0()},
                       ensures=['catch_table(result, self.parent.referenced_symbols, self.catch_symbol, self.catch_symbol_usage)'],
                       env=dict(base_env, catch_table=Helper(catch_table))))
    cs.append(Contract(MOD + ':CatchScope.local_declared_symbols', params={'self': catch0()},
                       ensures=['result == self.parent.local_declared_symbols | {self.catch_symbol}'], env=base_env))
    cs.append(Contract(MOD + ':CatchScope.declared_symbols', params={'self': catch0()},
                       ensures=['result == self.parent.declared_symbols | {self.catch_symbol}'], env=base_env))
    cs.append(Contract(MOD + ':CatchScope.non_local_symbols', params={'self': catch0()},
                       ensures=['result == set(self.parent.referenced_symbols) - {self.catch_symbol}'], env=base_env))

    def forwarded(e, symbol, n):
        xs = [x for x in rec['log'] if x[0] == 'parent.reference']
        if len(xs) != 1:
            return False
        a, k = xs[0][1], xs[0][2]
        got = a[1] if len(a) > 1 else k.get('count', 1)
        return a[0] is symbol and (got is n or (isinstance(n, int) and got == n))
    for explicit in (True, False):
        params = {'self': catch0(), 'symbol': Str}
        if explicit:
            params['count'] = Int
        n = 'count' if explicit else '1'
        cs.append(Contract(MOD + ':CatchScope.reference', params=params, notes='count %s' % ('given' if explicit else 'defaulted'),
                           ensures=['implies(symbol == self.catch_symbol, self.catch_symbol_usage == old(self.catch_symbol_usage) + %s)' % n,
                                    "symbol != self.catch_symbol or calls('parent.reference') == 0",
                                    'implies(symbol != self.catch_symbol, self.catch_symbol_usage == old(self.catch_symbol_usage))',
                                    'symbol == self.catch_symbol or forwarded(symbol, %s)' % n,
                                    'result is None'],
                           modifies=['self.catch_symbol_usage'], env=dict(base_env, forwarded=Helper(forwarded))))
    cs.append(Contract(MOD + ':CatchScope.close', params={'self': catch0(_closed=Const(False))},
                       ensures=['self._closed is True', "calls('parent.reference') == 0", 'result is None'], modifies=['self._closed'], env=base_env, notes='open'))
    cs.append(Contract(MOD + ':CatchScope.close', params={'self': catch0(_closed=Const(True))}, raises={'ValueError': True},
                       ensures=['False'], env=base_env, notes='already closed'))

    # ---- construction ------------------------------------------------------------------------
    class NodeT(object):
        def make(self, name):
            n = PObj(object, name='node')
            ident = PObj(object, name='identifier')
            ident.fields['value'] = Str.fresh('catch_parameter')
            n.fields['identifier'] = ident
            return n

        def __repr__(self):
            return 'Node'
    fresh_tables = ['self._closed is False', 'len(self.referenced_symbols) == 0', 'self.local_declared_symbols == set()',
                    'self.children == []', 'len(self.remapped_symbols) == 0', 'self.parent is parent']
    cs.append(Contract(MOD + ':Scope.__init__', params={'self': Obj(mod.Scope, {}), 'node': NodeT(), 'parent': PARENT}, ensures=fresh_tables, env=base_env))
    cs.append(Contract(MOD + ':Scope.__init__', params={'self': Obj(mod.Scope, {}), 'node': NodeT()},
                       ensures=[x.replace('is parent', 'is None') for x in fresh_tables], env=base_env, notes='no parent given'))
    SCOPE_PARENT = Obj(mod.Scope, {})
    cs.append(Contract(MOD + ':CatchScope.__init__', params={'self': Obj(mod.CatchScope, {}), 'node': NodeT(), 'parent': SCOPE_PARENT},
                       ensures=['self._closed is False', 'self.catch_symbol == node.identifier.value', 'self.catch_symbol_usage == 0', 'self.children == []',
                                'len(self.remapped_symbols) == 0', 'self.parent is parent'], env=base_env))
    cs.append(Contract(MOD + ':CatchScope.__init__', params={'self': Obj(mod.CatchScope, {}), 'node': NodeT(), 'parent': OneOf(Const(None), Parent())},
                       raises={'TypeError': True}, ensures=['False'], env=base_env, notes='parent is not a Scope'))
    # nest / funcdecl / catchctx: the new scope is of the right class, hangs below this one and is its last child
    KID = Obj(mod.Scope, {})
    for meth, args, cls in (('nest', {}, 'type(self)'), ('nest', {'cls': Const(mod.CatchScope)}, 'CatchScope'), ('nest', {'cls': Const(mod.Scope)}, 'Scope'),
                            ('funcdecl', {}, 'Scope'), ('catchctx', {}, 'CatchScope')):
        for selfcls in (mod.Scope, mod.CatchScope):
            if meth == 'nest' and not args and selfcls is mod.CatchScope:
                pass
            params = {'self': Obj(selfcls, {'children': Const0List()}), 'node': NodeT()}
            params.update(args)
            cs.append(Contract(MOD + ':Scope.%s' % meth, params=params,
                               ensures=['type(result) is %s' % cls, 'result.parent is self', 'len(self.children) == old(len(self.children)) + 1',
                                        'self.children[-1] is result', 'result._closed is False', 'result.children == []', 'len(result.remapped_symbols) == 0'],
                               modifies=['self.children'], env=dict(base_env, Scope=mod.Scope, CatchScope=mod.CatchScope),
                               notes='%s from a %s' % (cls, selfcls.__name__)))
    return cs

"""Sidecar contracts for the convenience wrappers of factory.py (C14: `es5.pretty_print(source, ...)` returns exactly what the explicit
parse-then-print calls return; C20: an indentation string given to the helper reaches the printer).

    unparse(self, source, *a, **kw)   (the closure RawParserUnparserFactory.build_unparse builds around a printer f)
        the parser is called exactly once, with (source, with_comments=<the keyword, False when absent>); the printer is called exactly
        once with (the tree the parser returned, *a, **kw without with_comments) -- every positional and keyword argument forwarded
        unchanged, in order -- and its result is returned as it is
    parse(self, source, *a, **kw)     (build_parse): the parser called once with (source, *a, **kw), its result returned
Argument shapes: no / one / two positional arguments x keyword sets {}, {indent_str}, {with_comments}, {with_comments, indent_str, x}."""
from vf.pyvc.dsl import Contract, Const, Helper, PExt, PObj, Str
from vf.pyvc.engine import PDict

MODULE = 'calmjs.parse.factory'


def build(fm):
    cs = []
    rec = {}

    def reset():
        rec.clear()
        rec.update(parse=[], printer=[])
    tree, out = PObj(object, name='tree'), PObj(object, name='printed')

    def parse_callable(e, a, k):
        rec['parse'].append((list(a), dict(k)))
        return tree

    def printer(e, a, k):
        rec['printer'].append((list(a), dict(k)))
        return out
    source = PObj(object, name='source')
    pos_shapes = [(), ('p1',), ('p1', 'p2')]
    kw_shapes = [{}, {'indent_str': 'I'}, {'with_comments': 'WC'}, {'with_comments': 'WC', 'indent_str': 'I', 'x': 'X'}]
    vals = {'p1': PObj(object, name='positional_1'), 'p2': PObj(object, name='positional_2'), 'I': PObj(object, name='indent'), 'X': PObj(object, name='x_value'),
            'WC': PObj(object, name='with_comments_value')}
    for pos in pos_shapes:
        for kw in kw_shapes:
            a = tuple(vals[p] for p in pos)
            k = {n: vals[v] for n, v in kw.items()}

            def ok(e, a=a, k=k):
                if len(rec['parse']) != 1 or len(rec['printer']) != 1:
                    return False
                pa, pk = rec['parse'][0]
                if len(pa) != 1 or pa[0] is not source or set(pk) != {'with_comments'}:
                    return False
                want_wc = k['with_comments'] if 'with_comments' in k else False
                if pk['with_comments'] is not want_wc:
                    return False
                fa, fk = rec['printer'][0]
                rest = {n: v for n, v in k.items() if n != 'with_comments'}
                return len(fa) == 1 + len(a) and fa[0] is tree and all(x is y for x, y in zip(fa[1:], a)) and set(fk) == set(rest) and all(fk[n] is rest[n] for n in rest)
            class KW(object):
                def __init__(self, k=k):
                    self.k = k

                def make(self, name):
                    return PDict(dict(self.k))      # a fresh keyword dict per run (the wrapper pops from it)
            params = {'self': Const(PObj(object, name='helper')), 'source': Const(source), 'a': Const(a), 'kw': KW()}
            cs.append(Contract(MODULE + ':RawParserUnparserFactory.build_unparse.unparse', params=params,
                               ensures=['result is printed()', 'calls_ok()'],
                               env={'__reset__': reset, 'parse_callable': PExt('parse_callable', parse_callable), 'f': PExt('printer', printer),
                                    'printed': Helper(lambda e: out), 'calls_ok': Helper(ok)},
                               notes='%d positional, keywords %s' % (len(a), sorted(k) or 'none')))

            def ok2(e, a=a, k=k):
                if len(rec['printer']) != 1 or rec['parse']:
                    return False
                fa, fk = rec['printer'][0]
                return len(fa) == 1 + len(a) and fa[0] is source and all(x is y for x, y in zip(fa[1:], a)) and set(fk) == set(k) and all(fk[n] is k[n] for n in k)
            cs.append(Contract(MODULE + ':RawParserUnparserFactory.build_parse.parse', params=params, ensures=['result is printed()', 'calls_ok()'],
                               env={'__reset__': reset, 'f': PExt('parse_callable', printer), 'printed': Helper(lambda e: out), 'calls_ok': Helper(ok2)},
                               notes='%d positional, keywords %s' % (len(a), sorted(k) or 'none')))
    return cs

"""Sidecar contracts for walkers.Walker (property C16).

Spec.  Nodes are values of an uninterpreted sort; kids(n) is what iterating n gives (Node.__iter__: the non-None entries of
children(), decided per production by the O-children obligations of this check).
    pre(n)        = flat(kids(n))                      -- pre-order of the proper descendants of n
    flat          is the monoid homomorphism with  flat([c]) = [c] ++ pre(c)
    filt          is the monoid homomorphism with  filt([c]) = [c] if cond(c) else []
Contracts: walk(n) yields pre(n); filter(n, cond) yields filt(pre(n)) ("filtering equals walking then selecting");
extract(n, cond, skip) returns filt(pre(n))[skip] and raises TypeError exactly when there are not that many matches.
The recursive calls are used by contract (partial correctness; trees are finite: O-linear)."""
import z3

from vf.pyvc.dsl import Contract, Loop, Obj, Opaque, Const, Helper, Int, SBool, SInt, SSeq, PList, Seq, PExt
from vf.pyvc.engine import PGen

MODULE = 'calmjs.parse.walkers'
NODE = Opaque('Node')


def build(module, Node):
    NS = NODE.sort()
    SEQ = z3.SeqSort(NS)
    kids = z3.Function('kids', NS, SEQ)
    pre = z3.Function('pre', NS, SEQ)
    flat = z3.Function('flat', SEQ, SEQ)
    filt = z3.Function('filt', SEQ, SEQ)
    cond = z3.Function('cond', NS, z3.BoolSort())
    empty = z3.Empty(SEQ)

    def seq_t(x):
        if isinstance(x, PList):
            x = x.val
        if isinstance(x, PGen):
            x = x.items
        if isinstance(x, SSeq):
            return x.t
        if isinstance(x, list) and not x:
            return empty
        if isinstance(x, list):
            return z3.Concat(*[z3.Unit(e.t) for e in x]) if len(x) > 1 else z3.Unit(x[0].t)
        raise TypeError(x)

    def wrap(t):
        return PList(SSeq(t, NODE))

    def prefix(eng, s, k):
        return wrap(z3.Extract(seq_t(s), z3.IntVal(0), k.t if hasattr(k, 't') else z3.IntVal(k)))
    env = {
        '__opaque_classes__': {'Node': Node},
        '__iter_opaque__': lambda eng, n: SSeq(kids(n.t), NODE),
        'kidseq': Helper(lambda e, n: wrap(kids(n.t))),
        'pre': Helper(lambda e, n: wrap(pre(n.t))),
        'flat': Helper(lambda e, s: wrap(flat(seq_t(s)))),
        'filt': Helper(lambda e, s: wrap(filt(seq_t(s)))),
        'prefix': Helper(prefix),
        'cat': Helper(lambda e, a, b: wrap(z3.Concat(seq_t(a), seq_t(b)))),
        'unit': Helper(lambda e, n: wrap(z3.Unit(n.t))),
        # defining equations, revealed at the instances the proof needs
        'def_pre': Helper(lambda e, n: SBool(pre(n.t) == flat(kids(n.t)))),
        'flat_empty': Helper(lambda e: SBool(flat(empty) == empty)),
        'flat_snoc': Helper(lambda e, s, c: SBool(flat(z3.Concat(seq_t(s), z3.Unit(c.t))) == z3.Concat(flat(seq_t(s)), z3.Unit(c.t), pre(c.t)))),
        'filt_empty': Helper(lambda e: SBool(filt(empty) == empty)),
        'filt_unit': Helper(lambda e, c: SBool(filt(z3.Unit(c.t)) == z3.If(cond(c.t), z3.Unit(c.t), empty))),
        'filt_cat': Helper(lambda e, a, b: SBool(filt(z3.Concat(seq_t(a), seq_t(b))) == z3.Concat(filt(seq_t(a)), filt(seq_t(b))))),
        # a theorem of sequences, stated where needed: the prefix of length k+1 is the prefix of length k plus element k
        'prefix_step': Helper(lambda e, s, k: SBool(z3.Implies(
            z3.And(k.t >= 0, k.t < z3.Length(seq_t(s))),
            z3.Extract(seq_t(s), z3.IntVal(0), k.t + 1) == z3.Concat(z3.Extract(seq_t(s), z3.IntVal(0), k.t), z3.Unit(seq_t(s)[k.t]))))),
        'prefix_all': Helper(lambda e, s: SBool(z3.Extract(seq_t(s), z3.IntVal(0), z3.Length(seq_t(s))) == seq_t(s))),
    }
    SELF = Obj(module.Walker, {})

    class CondFn(object):
        """condition: an arbitrary pure predicate on nodes"""
        def make(self, name):
            return PExt('condition', lambda e, a, k: SBool(cond(a[0].t)))

        def __repr__(self):
            return 'Predicate'
    cs = []
    walk = Contract(
        MODULE + ':Walker.walk', params={'self': SELF, 'node': NODE, 'condition': Const(None)}, yields=NODE,
        ensures=['result == pre(node)'],
        loops=[Loop(index='k', inv=['_out == flat(prefix(kidseq(node), k))']),
               Loop(index='j', inv=['_out == cat(out0, prefix(_iter1, j))'], ghost_pre=['out0 = _out'], types={'out0': Seq(NODE)})],
        uses={'loop0.entry': [], 'entry': ['flat_empty()', 'def_pre(node)', 'prefix_all(kidseq(node))'],
              'loop0.preserve': ['flat_snoc(prefix(kidseq(node), k - 1), child)', 'prefix_step(kidseq(node), k - 1)'],
              'loop1.preserve': ['prefix_step(_iter1, j - 1)'], 'loop1.exit': ['prefix_all(_iter1)']},
        env=env)
    cs.append(walk)
    # the condition argument of walk is documented as ignored: with any predicate it still yields every node
    cs.append(Contract(
        MODULE + ':Walker.walk', params={'self': SELF, 'node': NODE, 'condition': CondFn()}, yields=NODE,
        ensures=['result == pre(node)'], loops=walk.loops, uses=walk.uses, env=env, notes='a condition is given (and ignored)'))
    filt_c = Contract(
        MODULE + ':Walker.filter', params={'self': SELF, 'node': NODE, 'condition': CondFn()}, yields=NODE,
        ensures=['result == filt(pre(node))'],
        loops=[Loop(index='k', inv=['_out == filt(flat(prefix(kidseq(node), k)))']),
               Loop(index='j', inv=['_out == cat(out0, prefix(_iter1, j))'], ghost_pre=['out0 = _out'], types={'out0': Seq(NODE)})],
        uses={'entry': ['flat_empty()', 'filt_empty()', 'def_pre(node)', 'prefix_all(kidseq(node))'],
              'loop0.preserve': ['flat_snoc(prefix(kidseq(node), k - 1), child)', 'prefix_step(kidseq(node), k - 1)',
                                 'filt_cat(flat(prefix(kidseq(node), k - 1)), cat(unit(child), pre(child)))',
                                 'filt_cat(unit(child), pre(child))', 'filt_unit(child)'],
              'loop1.preserve': ['prefix_step(_iter1, j - 1)'], 'loop1.exit': ['prefix_all(_iter1)']},
        env=env)
    cs.append(filt_c)
    env['nth'] = Helper(lambda e, s, i: NODE.wrap(seq_t(s)[i.t if hasattr(i, 't') else z3.IntVal(i)]))
    env['length'] = Helper(lambda e, s: SInt(z3.Length(seq_t(s))))
    cs.append(Contract(
        MODULE + ':Walker.extract', params={'self': SELF, 'node': NODE, 'condition': CondFn(), 'skip': Int},
        requires=['skip >= 0'],
        ensures=['skip < length(filt(pre(node)))', 'result == nth(filt(pre(node)), skip)'],
        raises={'TypeError': 'length(filt(pre(node))) <= skip'},
        loops=[Loop(index='k', inv=['skip == skip0 - k', 'k <= skip0', '_iter0 == filt(pre(node))'])],
        hints={'ghost_init': ['skip0 = skip']}, env=env, notes='n-th match or TypeError'))
    # Node.__iter__: the entries of children() that are not None, in order (this is kids(n) above); children() lists of length <= 3
    import itertools
    from vf.pyvc.dsl import PObj
    rec = {}
    for n in range(0, 4):
        for pattern in itertools.product((True, False), repeat=n):
            class NodeT(object):
                def __init__(self, pattern=pattern):
                    self.pattern = pattern

                def make(self, name):
                    o = PObj(Node, name='node')
                    items = [PObj(object, name='child%d' % i) if present else None for i, present in enumerate(self.pattern)]
                    rec['items'] = items
                    o.fields['children'] = PExt('Node.children', lambda e, a, k: PList(list(items)))
                    return o

                def __repr__(self):
                    return 'Node(children=%s)' % ''.join('c' if p else '-' for p in self.pattern)
            cs.append(Contract('calmjs.parse.asttypes:Node.__iter__', params={'self': NodeT()}, yields=Const(None),
                               ensures=['same_items(result)'],
                               env={'same_items': Helper(lambda e, r: [x for x in (r.items if isinstance(r, PGen) else r.val)] == [x for x in rec['items'] if x is not None]
                                                         and all(a is b for a, b in zip((r.items if isinstance(r, PGen) else r.val), [x for x in rec['items'] if x is not None])))},
                               notes='children: %s' % (''.join('c' if p else '-' for p in pattern) or 'none')))
    return cs, env

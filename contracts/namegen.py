"""Sidecar contracts for handlers/obfuscation.py:NameGenerator (property C07): the source of new names.

  __iter__   every name it yields is a non-empty string outside `skip` (checked for an iteration of any length: both loops cut);
             the candidate of round n, position j is join(product(charset, repeat=n)[j])
  __call__   the derived generator skips what this one skips and what the caller adds, over the same alphabet
  __next__   delegates to the one iterator created at construction
Models (assumed): `itertools.count(1)` enumerates 1, 2, 3, ...; `itertools.product(cs, repeat=n)` yields tuples of n characters
of cs; `''.join` of such a tuple has length n.  That the candidates are pairwise distinct (product yields each tuple once;
the alphabet has no repeated character: obligation `names.alphabet_distinct` of the check) is NOT derived here: bounded stand-in
(the first 4000 names)."""
import z3

from vf.pyvc.dsl import Contract, Loop, Const, Helper, PExt, PObj, PList, Str, Int, SInt, SStr, SBool, Obj
from vf.pyvc.engine import PAbsSeq, FoldSpec, FoldAbs, SetStr, PSymSet

MOD = 'calmjs.parse.handlers.obfuscation'


def build(mod):
    cs = []
    rec = {}
    CAND = z3.Function('candidate', z3.IntSort(), z3.IntSort(), z3.StringSort())     # join of the j-th tuple of round n

    def reset():
        rec.clear()
        rec['log'] = []

    class Gen(object):
        def make(self, name):
            o = PObj(mod.NameGenerator, name='self')
            o.fields['skip'] = SetStr().fresh('skip')
            o.fields['charset'] = Str.fresh('charset')
            rec['skip'] = o.fields['skip']
            return o

        def havoc_obj(self, eng, obj, tag):
            pass        # the generator never writes to itself while iterating

        def __repr__(self):
            return 'NameGenerator'

    def count_model(e, a, k):
        if list(a) != [1] or k:
            raise Exception('count() is started at 1')
        return PAbsSeq('rounds', kinds=(1,), width=1, elem=lambda i, kind: SInt(i + 1))

    def product_model(e, a, k):
        rec['product_args'] = (list(a), dict(k))
        n = k.get('repeat')
        rec['round'] = n
        return PAbsSeq('tuples', kinds=(1,), width=1, elem=lambda j, kind: _tuple(n, j))

    def _tuple(n, j):
        t = PObj(object, name='chars')
        t.fields['__joinable__'] = (n, j)
        return t

    fold_bad = lambda f, x: f['bad'] + z3.If(z3.Or(z3.Select(rec['skip'].arr, x.t if hasattr(x, 't') else z3.StringVal(x)),  # noqa: E731
                                                   z3.Length(x.t if hasattr(x, 't') else z3.StringVal(x)) == 0), 1, 0)
    YIELDS = FoldSpec(kinds=(), width=0, folds={'bad': fold_bad})

    def bad(e, lst):
        v = lst.val if isinstance(lst, PList) else lst
        if isinstance(v, FoldAbs):
            return SInt(v.folds['bad'])
        raise TypeError(v)

    def joined(e, sep, it):
        # ''.join(chars) for a tuple of the product: the candidate of this round and position
        nj = getattr(it, 'fields', {}).get('__joinable__') if isinstance(it, PObj) else None
        if sep != '' or nj is None:
            raise Exception('join of something else than a product tuple')
        n, j = nj
        nt = n.t if hasattr(n, 't') else z3.IntVal(n)
        s = CAND(nt, j)
        e.assume(z3.Length(s) == nt)
        return SStr(s)
    env = {'__reset__': reset, 'count': PExt('itertools.count', count_model), 'product': PExt('itertools.product', product_model),
           '__str_join_hook__': joined, 'bad': Helper(bad),
           'product_over': Helper(lambda e, charset, n: rec.get('product_args') is not None and rec['product_args'][0] == [charset] and
                                  set(rec['product_args'][1]) == {'repeat'} and rec['product_args'][1]['repeat'] is n)}
    outer = Loop(index='_r', inv=['bad(_out) == 0'], types={'self': Gen()})
    inner = Loop(index='_j', inv=['bad(_out) == 0', 'n >= 1'], types={'self': Gen(), 'symbol': Str},
                 ghost_step=['assert product_over(self.charset, n), "candidates are drawn from the alphabet of this generator, n characters each"'])
    cs.append(Contract(MOD + ':NameGenerator.__iter__', params={'self': Gen()}, yields=YIELDS,
                       ensures=['bad(_out) == 0'], loops=[outer, inner], env=env))

    # ---- __init__ / __call__ / __next__ ------------------------------------------------------------
    def iter_model(e, a, k):
        rec['log'].append(('iter', list(a)))
        it = PObj(object, name='iterator')
        it.fields['__next__'] = PExt('generator.__next__', lambda e2, a2, k2: rec['log'].append(('next', list(a2))) or rec.setdefault('yielded', Str.fresh('next_name')))
        rec['iterator'] = it
        return it
    ienv = {'__reset__': reset, 'iter': PExt('iter', iter_model), 'the_iterator': Helper(lambda e: rec.get('iterator')),
            'iter_of': Helper(lambda e, x: [r for r in rec['log'] if r[0] == 'iter'] == [('iter', [x])]),
            'log': Helper(lambda e: [r[0] for r in rec['log']]), 'yielded': Helper(lambda e: rec.get('yielded')), 'ID_CHARS': mod.ID_CHARS}
    NEW = Obj(mod.NameGenerator, {})
    own_iter = ['iter_of(self)', 'self._NameGenerator__iterself is the_iterator()']
    cs.append(Contract(MOD + ':NameGenerator.__init__', params={'self': NEW, 'skip': SetStr(), 'charset': Str},
                       ensures=['self.skip == skip', 'self.charset == charset'] + own_iter, env=ienv, notes='skip: a set'))
    cs.append(Contract(MOD + ':NameGenerator.__init__', params={'self': NEW, 'skip': Const(('do', 'if', 'in'))},
                       ensures=["self.skip == {'do', 'if', 'in'}", 'self.charset == ID_CHARS'] + own_iter, env=ienv, notes='skip: a tuple of keywords, default alphabet'))
    cs.append(Contract(MOD + ':NameGenerator.__init__', params={'self': NEW},
                       ensures=['self.skip == set()', 'self.charset == ID_CHARS'] + own_iter, env=ienv, notes='defaults'))

    class Gen2(object):
        def make(self, name):
            o = PObj(mod.NameGenerator, name='self')
            o.fields['skip'] = SetStr().fresh('own_skip')
            o.fields['charset'] = Str.fresh('charset')
            o.fields['_NameGenerator__iterself'] = iter_model(None, [o], {})
            rec['log'] = []
            return o

        def __repr__(self):
            return 'NameGenerator'
    cs.append(Contract(MOD + ':NameGenerator.__call__', params={'self': Gen2(), 'skip': SetStr()},
                       ensures=['type(result) is NameGenerator and result is not self', 'result.skip == skip | self.skip', 'result.charset == self.charset',
                                'self.skip == old(self.skip)', 'iter_of(result)', 'result._NameGenerator__iterself is the_iterator()'],
                       env=dict(ienv, NameGenerator=mod.NameGenerator), notes='skip: a set'))
    cs.append(Contract(MOD + ':NameGenerator.__call__', params={'self': Gen2(), 'skip': Const(('do', 'if'))},
                       ensures=["result.skip == {'do', 'if'} | self.skip", 'result.charset == self.charset'],
                       env=dict(ienv, NameGenerator=mod.NameGenerator), notes='skip: a tuple'))
    cs.append(Contract(MOD + ':NameGenerator.__next__', params={'self': Gen2()},
                       ensures=["log() == ['next']", 'result is yielded()'], env=ienv))
    return cs

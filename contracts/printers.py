"""Sidecar contracts for the printer factories of unparsers/es5.py (glue shared by C01, C02, C07, C14, C20): every option reaches the
rule set it configures under its own name, the obfuscation rules are present exactly when asked for, and they are told the lexer's
keyword table as the names never to generate."""
from vf.pyvc.dsl import Contract, Const, OneOf, Helper, PExt, PObj, PList, Str, Bool
from vf.pyvc.engine import PGen

MODULE = 'calmjs.parse.unparsers.es5'


def build(umod, lexmod):
    rec = {}

    def reset():
        rec.clear()
        rec['log'] = []

    def rule(name):
        def fn(e, a, k):
            r = PObj(object, name='ruleset_' + name)
            rec['log'].append((name, tuple(a), dict(k), r))
            return r
        return fn
    rules = PObj(object, name='rules')
    for n in ('indent', 'minify', 'obfuscate'):
        rules.fields[n] = PExt('rules.' + n, rule(n))

    def unparser(e, a, k):
        u = PObj(object, name='unparser')
        rec['unparser_kw'] = dict(k)
        rec['unparser_args'] = tuple(a)

        def call(e2, a2, k2):
            rec['printed'] = a2[0] if a2 else None
            ch = [PObj(object, {'text': Str.fresh('chunk%d' % i)}, name='chunk%d' % i) for i in range(2)]
            rec['chunks'] = ch
            return PGen(ch)
        u.fields['__call__'] = PExt('Unparser.__call__', call)
        rec['unparser'] = u
        return u
    kwd = PObj(object, name='keywords_dict')
    keys = PObj(object, name='keyword names')
    kwd.fields['keys'] = PExt('dict.keys', lambda e, a, k: keys)
    lexer_cls = PObj(object, name='Lexer')
    lexer_cls.fields['keywords_dict'] = kwd

    def entries(name):
        return [x for x in rec['log'] if x[0] == name]

    def rules_given(e):
        r = rec.get('unparser_kw', {}).get('rules')
        return list(r.val) if isinstance(r, PList) else list(r) if r is not None else None
    env = {'__reset__': reset, 'rules': rules, 'Unparser': PExt('Unparser', unparser), 'Lexer': lexer_cls,
           'calls': Helper(lambda e, n: len(entries(n))),
           'kw': Helper(lambda e, n, key: entries(n)[0][2].get(key, entries(n)[0][1][0] if (key == 'indent_str' and entries(n)[0][1]) else '<missing>')),
           'kw_is': Helper(lambda e, n, key, v: entries(n)[0][2].get(key, '<missing>') is v or (isinstance(v, (bool, str)) and entries(n)[0][2].get(key, '<missing>') == v)),
           'keyword_names': Helper(lambda e: keys),
           'rule_objects': Helper(lambda e, names: (lambda ns: rules_given(e) is not None and len(rules_given(e)) == len(ns) and all(
               entries(n) and rules_given(e)[i] is entries(n)[0][3] for i, n in enumerate(ns)))(list(names.val) if isinstance(names, PList) else list(names))),
           'the_unparser': Helper(lambda e: rec.get('unparser'))}
    B = (True, False)
    cs = [Contract(MODULE + ':pretty_printer', params={'indent_str': Str},
                   ensures=['result is the_unparser()', "calls('indent') == 1", "kw_is('indent', 'indent_str', indent_str)", "rule_objects(['indent'])"], env=env)]
    for ob in B:
        for og in B:
            for sf in B:
                for ds in B:
                    names = ['minify'] + (['obfuscate'] if ob else [])
                    ens = ['result is the_unparser()', "calls('minify') == 1", "kw_is('minify', 'drop_semi', %r)" % ds, 'rule_objects(%r)' % names,
                           "calls('obfuscate') == %d" % (1 if ob else 0)]
                    if ob:
                        ens += ["kw_is('obfuscate', 'obfuscate_globals', %r)" % og, "kw_is('obfuscate', 'shadow_funcname', %r)" % sf,
                                "kw('obfuscate', 'reserved_keywords') is keyword_names()"]
                    cs.append(Contract(MODULE + ':minify_printer', params={'obfuscate': Const(ob), 'obfuscate_globals': Const(og), 'shadow_funcname': Const(sf),
                                                                           'drop_semi': Const(ds)},
                                       ensures=ens, env=env, notes='obfuscate=%s obfuscate_globals=%s shadow_funcname=%s drop_semi=%s' % (ob, og, sf, ds)))
    # the one-call helpers: print through the factory-made printer with the same options, join the fragment texts in order
    rec2 = {}

    def printer_factory(name):
        def fn(e, a, k):
            rec2['factory'] = (name, tuple(a), dict(k))
            p = PObj(object, name='printer')

            def call(e2, a2, k2):
                rec2['printed'] = a2[0] if a2 else None
                rec2['texts'] = [Str.fresh('t0'), Str.fresh('t1')]
                return PGen([PObj(object, {'text': t}, name='chunk') for t in rec2['texts']])
            p.fields['__call__'] = PExt('printer.__call__', call)
            return p
        return fn

    def joined(e, result):
        import z3
        t = rec2['texts']
        return e.compare(__import__('ast').Eq(), result, type(t[0])(z3.Concat(t[0].t, t[1].t)))
    env2 = {'__reset__': rec2.clear, 'pretty_printer': PExt('pretty_printer', printer_factory('pretty_printer')),
            'minify_printer': PExt('minify_printer', printer_factory('minify_printer')),
            'factory_args': Helper(lambda e: rec2['factory'][1]), 'factory_kw': Helper(lambda e: rec2['factory'][2]),
            'printed': Helper(lambda e: rec2.get('printed')), 'joined': Helper(joined),
            'arg_or_kw': Helper(lambda e, i, key: rec2['factory'][1][i] if len(rec2['factory'][1]) > i else rec2['factory'][2].get(key, '<missing>'))}

    class Tree(object):
        def make(self, name):
            return PObj(object, name='ast')
    cs.append(Contract(MODULE + ':pretty_print', params={'ast': Tree(), 'indent_str': Str},
                       ensures=['printed() is ast', 'joined(result)', "arg_or_kw(0, 'indent_str') is indent_str"],
                       env=env2))
    for ob in B:
        for ds in B:
            cs.append(Contract(MODULE + ':minify_print', params={'ast': Tree(), 'obfuscate': Const(ob), 'obfuscate_globals': Const(not ob), 'shadow_funcname': Const(ds),
                                                                   'drop_semi': Const(not ds)},
                               ensures=['printed() is ast', 'joined(result)',
                                        "arg_or_kw(0, 'obfuscate') is %r" % ob, "arg_or_kw(1, 'obfuscate_globals') is %r" % (not ob),
                                        "arg_or_kw(2, 'shadow_funcname') is %r" % ds, "arg_or_kw(3, 'drop_semi') is %r" % (not ds)],
                               env=env2, notes='obfuscate=%s obfuscate_globals=%s shadow_funcname=%s drop_semi=%s' % (ob, not ob, ds, not ds)))
    return cs

"""Sidecar contracts for the Token rules of ruletypes.py that iterate over child lists (relied on by C01, C02, C08, C13, C20:
the per-production obligations O-print / O-depth / O-frag run the real definitions on child lists of length 0..3; these
contracts carry them to lists of ANY length).

Spec.  Nodes and chunks are values of uninterpreted sorts.  The `walk` argument is a double: walk(dispatcher, x, token=self)
gives TOK(x) (an arbitrary chunk sequence per item), walk(dispatcher, node, definition=self.value) gives SEP (an arbitrary
chunk sequence; the empty one for the empty definition), walk(dispatcher, ElisionJoinAttr.sep) gives COMMA.  A call with any
other arguments gives a fresh arbitrary sequence, so that it cannot satisfy the post-condition.
    JoinAttr:         result = []                                   for no items
                      result = TOK(item0) ++ JT(items[1:])          JT([]) = [],  JT(s ++ [c]) = JT(s) ++ SEP ++ TOK(c)
    ElisionJoinAttr:  result = TOK(item0) ++ EJT(items[1:])         EJT(s ++ [c]) = EJT(s) ++ (COMMA unless the item before c is
                      an Elision) ++ (SEP unless c is an Elision) ++ TOK(c)            -- ES5 11.1.4: an Elision carries its own
                      commas, the element separator is written once behind every element that is not one
    Attr / Text / Optional / ElisionToken: the chunks of the one walk call they make, unchanged (nothing for an empty value).
The defining equations are revealed at the instances used (as in contracts/walkers.py)."""
import z3

from vf.pyvc.dsl import Contract, Loop, Opaque, Const, Helper, SBool, SSeq, PList, Seq, PExt, PObj
from vf.pyvc.engine import PGen
from vf.pyvc.sym import SOpaque

MODULE = 'calmjs.parse.ruletypes'
NODE = Opaque('ItemNode')
CHUNK = Opaque('Chunk')


def build(module):
    NS, CS = NODE.sort(), CHUNK.sort()
    NSEQ, SEQ = z3.SeqSort(NS), z3.SeqSort(CS)
    TOK = z3.Function('walk_item', NS, SEQ)
    JT = z3.Function('joined_tail', NSEQ, SEQ)
    EJT = z3.Function('elision_joined_tail', NSEQ, SEQ)
    is_elision = z3.Function('is_elision', NS, z3.BoolSort())
    SEP = z3.Const('walk_separator', SEQ)
    COMMA = z3.Const('walk_elision_comma', SEQ)
    ITEMS = z3.Const('items', NSEQ)
    FIRST = ITEMS[0]
    TAIL = z3.Extract(ITEMS, z3.IntVal(1), z3.Length(ITEMS) - 1)
    empty, nempty = z3.Empty(SEQ), z3.Empty(NSEQ)
    cs = []

    def seq_t(x, e=empty):
        if isinstance(x, PList):
            x = x.val
        if isinstance(x, PGen):
            x = x.items
        if isinstance(x, SSeq):
            return x.t
        if isinstance(x, list) and not x:
            return e
        if isinstance(x, list):
            return z3.Concat(*[z3.Unit(v.t) for v in x]) if len(x) > 1 else z3.Unit(x[0].t)
        raise TypeError(x)

    def wrap(t):
        return PList(SSeq(t, CHUNK))

    def nwrap(t):
        return PList(SSeq(t, NODE))

    def kt(k):
        return k.t if hasattr(k, 't') else z3.IntVal(k)

    def prev_of(s):
        """the item in front of the one that follows the tail prefix s"""
        return z3.If(z3.Length(s) == 0, FIRST, s[z3.Length(s) - 1])
    common = {
        'cat': Helper(lambda e, a, b: wrap(z3.Concat(seq_t(a), seq_t(b)))),
        'prefix_of': Helper(lambda e, s, j: wrap(z3.Extract(seq_t(s), z3.IntVal(0), kt(j)))),
        'nprefix': Helper(lambda e, s, j: nwrap(z3.Extract(seq_t(s, nempty), z3.IntVal(0), kt(j)))),
        'seq_prefix_step': Helper(lambda e, s, j: SBool(z3.Implies(
            z3.And(kt(j) >= 0, kt(j) < z3.Length(seq_t(s))),
            z3.Extract(seq_t(s), z3.IntVal(0), kt(j) + 1) == z3.Concat(z3.Extract(seq_t(s), z3.IntVal(0), kt(j)), z3.Unit(seq_t(s)[kt(j)]))))),
        'seq_prefix_all': Helper(lambda e, s: SBool(z3.And(z3.Extract(seq_t(s), z3.IntVal(0), z3.Length(seq_t(s))) == seq_t(s),
                                                         z3.Extract(seq_t(s), z3.IntVal(0), z3.IntVal(0)) == empty))),
        'nprefix_step': Helper(lambda e, s, j: SBool(z3.Implies(
            z3.And(kt(j) >= 0, kt(j) < z3.Length(seq_t(s, nempty))),
            z3.Extract(seq_t(s, nempty), z3.IntVal(0), kt(j) + 1) == z3.Concat(z3.Extract(seq_t(s, nempty), z3.IntVal(0), kt(j)), z3.Unit(seq_t(s, nempty)[kt(j)]))))),
        'nprefix_all': Helper(lambda e, s: SBool(z3.And(z3.Extract(seq_t(s, nempty), z3.IntVal(0), z3.Length(seq_t(s, nempty))) == seq_t(s, nempty),
                                                      z3.Extract(seq_t(s, nempty), z3.IntVal(0), z3.IntVal(0)) == nempty))),
        'tok': Helper(lambda e, n: wrap(TOK(n.t))),
        # the element the current iteration looks at, named by position (not by the loop variable of the code: a renamed local
        # must not turn the lemma instance into one about another node)
        'nitem': Helper(lambda e, s, j: SOpaque(seq_t(s, nempty)[kt(j)], NODE)),
        'first': Helper(lambda e: SOpaque(FIRST, NODE)),
        'tail': Helper(lambda e: nwrap(TAIL)),
        'no_items': Helper(lambda e: SBool(z3.Length(ITEMS) == 0)),
        'some_items': Helper(lambda e: SBool(z3.Length(ITEMS) > 0)),
        'empty_chunks': Helper(lambda e: wrap(empty)),
        'jt': Helper(lambda e, s: wrap(JT(seq_t(s, nempty)))),
        'jt_empty': Helper(lambda e: SBool(JT(nempty) == empty)),
        'ejt': Helper(lambda e, s: wrap(EJT(seq_t(s, nempty)))),
        'ejt_empty': Helper(lambda e: SBool(EJT(nempty) == empty)),
        'same_node': Helper(lambda e, a, b: SBool(a.t == b.t)),
        'prev_of': Helper(lambda e, s: SOpaque(prev_of(seq_t(s, nempty)), NODE)),
        # the tail of the item list is what is left of the iterator after the first next()
        'iter_is_tail': Helper(lambda e, s: SBool(seq_t(s, nempty) == TAIL)),
    }
    copy_loop = lambda n, ghost: Loop(index='j', inv=['_out == cat(%s, prefix_of(_iter%d, j))' % (ghost, n)], ghost_pre=['%s = _out' % ghost],
                                      types={ghost: Seq(CHUNK)})      # noqa: E731

    def copy_uses(n):
        return {'loop%d.preserve' % n: ['seq_prefix_step(_iter%d, j - 1)' % n], 'loop%d.exit' % n: ['seq_prefix_all(_iter%d)' % n],
                'loop%d.entry' % n: ['seq_prefix_all(_iter%d)' % n]}

    def make(cls, value, attr_kind):
        """self, node, dispatcher, walk double for one configuration"""
        disp, the_node = PObj(object, name='dispatcher'), PObj(object, name='node')
        slf = PObj(cls, name='self')
        slf.fields.update({'value': value, 'pos': 0})
        items = nwrap(ITEMS)
        if attr_kind == 'name':
            slf.fields['attr'] = 'items'
            the_node.fields['items'] = items
        else:
            # a Deferrable as attr: called with (dispatcher, node), its result is what is iterated
            def deferred(e, a, k):
                if len(a) == 2 and a[0] is disp and a[1] is the_node and not k:
                    return items
                return nwrap(z3.FreshConst(NSEQ, 'wrong_deferrable_call'))
            d = PObj(module.Deferrable, name='deferrable')
            d.fields['__call__'] = PExt('Deferrable.__call__', deferred)
            slf.fields['attr'] = d

        def walk_model(e, a, k):
            if len(a) == 2 and a[0] is disp and set(k) == {'token'} and k['token'] is slf and isinstance(a[1], SOpaque):
                return PGen(SSeq(TOK(a[1].t), CHUNK))
            defn = NotImplemented
            if len(a) == 2 and set(k) == {'definition'}:
                defn = k['definition']
            if len(a) == 3 and not k:
                defn = a[2]
            if defn is not NotImplemented and a[0] is disp and a[1] is the_node:
                if defn is value and value:
                    return PGen(SSeq(SEP, CHUNK))
                if isinstance(defn, tuple) and not defn:
                    return PGen(SSeq(empty, CHUNK))
            if len(a) == 2 and a[0] is disp and not k and a[1] is getattr(cls, 'sep', NotImplemented):
                return PGen(SSeq(COMMA, CHUNK))
            return PGen(SSeq(z3.FreshConst(SEQ, 'wrong_walk_call'), CHUNK))
        return slf, disp, the_node, PExt('walk', walk_model)

    def isinstance_model(e, a, k):
        if isinstance(a[0], SOpaque) and a[1] is module.Elision:
            return SBool(is_elision(a[0].t))
        return e.builtin_isinstance(a[0], a[1])
    rule = PObj(object, name='separator_rule')
    for value, attr_kind in (((rule,), 'name'), (None, 'name'), ((), 'name'), ((rule,), 'deferrable')):
        sep = SEP if value else empty
        note = 'separator definition %s, attr %s' % ('given' if value else repr(value), attr_kind)
        # ---- JoinAttr ----------------------------------------------------------------------------------
        slf, disp, the_node, walk = make(module.JoinAttr, value, attr_kind)
        env = dict(common)
        env['jt_snoc'] = Helper(lambda e, s, c, sep=sep: SBool(
            JT(z3.Concat(seq_t(s, nempty), z3.Unit(c.t))) == z3.Concat(JT(seq_t(s, nempty)), sep, TOK(c.t))))
        uses = {'entry': ['jt_empty()', 'nprefix_all(tail())'],
                'loop1.entry': ['jt_empty()', 'nprefix_all(_iter1)'],
                'loop1.preserve': ['jt_snoc(nprefix(_iter1, k - 1), nitem(_iter1, k - 1))', 'nprefix_step(_iter1, k - 1)'],
                'loop1.exit': ['nprefix_all(_iter1)'], 'post': ['nprefix_all(tail())', 'jt_empty()']}
        for n in (0, 2, 3):
            uses.update(copy_uses(n))
        cs.append(Contract(
            MODULE + ':JoinAttr.__call__', params={'self': Const(slf), 'walk': Const(walk), 'dispatcher': Const(disp), 'node': Const(the_node)},
            yields=CHUNK,
            ensures=['implies(no_items(), result == empty_chunks())', 'implies(some_items(), result == cat(tok(first()), jt(tail())))'],
            loops=[copy_loop(0, 'out0'),
                   Loop(index='k', inv=['iter_is_tail(_iter1)', '_out == cat(tok(first()), jt(nprefix(_iter1, k)))']),
                   copy_loop(2, 'out2'), copy_loop(3, 'out3')],
            uses=uses, env=env, hints={'next_consumes': True}, notes=note))
        # ---- ElisionJoinAttr ----------------------------------------------------------------------------
        if value is None:
            # pre-condition (class docstring: "the value should be a description (i.e. tuple of rules)"): with None the
            # separator walk would look the node's own definition up again.  That every instance in the stock definitions has
            # a tuple is the obligation `rules.elision_join_value_is_tuple` of the checks that import these contracts.
            continue
        slf, disp, the_node, walk = make(module.ElisionJoinAttr, value, attr_kind)
        env = dict(common)
        env['isinstance'] = PExt('isinstance', isinstance_model)
        env['ejt_snoc'] = Helper(lambda e, s, c, sep=sep: SBool(
            EJT(z3.Concat(seq_t(s, nempty), z3.Unit(c.t))) == z3.Concat(
                EJT(seq_t(s, nempty)),
                z3.If(is_elision(prev_of(seq_t(s, nempty))), empty, COMMA),
                z3.If(is_elision(c.t), empty, sep),
                TOK(c.t))))
        uses = {'entry': ['ejt_empty()', 'nprefix_all(tail())'],
                'loop1.entry': ['ejt_empty()', 'nprefix_all(_iter1)'],
                'loop1.preserve': ['ejt_snoc(nprefix(_iter1, k - 1), nitem(_iter1, k - 1))', 'nprefix_step(_iter1, k - 1)'],
                'loop1.exit': ['nprefix_all(_iter1)'], 'post': ['nprefix_all(tail())', 'ejt_empty()']}
        for n in (0, 2, 3, 4):
            uses.update(copy_uses(n))
        cs.append(Contract(
            MODULE + ':ElisionJoinAttr.__call__', params={'self': Const(slf), 'walk': Const(walk), 'dispatcher': Const(disp), 'node': Const(the_node)},
            yields=CHUNK,
            ensures=['implies(no_items(), result == empty_chunks())', 'implies(some_items(), result == cat(tok(first()), ejt(tail())))'],
            loops=[copy_loop(0, 'out0'),
                   Loop(index='k', inv=['iter_is_tail(_iter1)', '_out == cat(tok(first()), ejt(nprefix(_iter1, k)))',
                                        'same_node(previous_node, prev_of(nprefix(_iter1, k)))'],
                        types={'previous_node': NODE}),
                   copy_loop(2, 'out2'), copy_loop(3, 'out3'), copy_loop(4, 'out4')],
            uses=uses, env=env, hints={'next_consumes': True}, notes=note))
    cs.extend(build_single(module, common, copy_loop, copy_uses, wrap, empty, SEQ))
    return cs


def build_single(module, common, copy_loop, copy_uses, wrap, empty, SEQ):
    """Attr / Text / Optional / ElisionToken: one walk call, its chunks unchanged; nothing for an empty value."""
    OUT = z3.Const('walk_output', SEQ)
    cs = []
    env = dict(common)
    env['walk_output'] = Helper(lambda e: wrap(OUT))

    def make(cls, fields, node_fields, expect):
        disp, the_node = PObj(object, name='dispatcher'), PObj(object, name='node')
        slf = PObj(cls, name='self')
        slf.fields.update(fields)
        the_node.fields.update(node_fields)

        def same(x, y):
            return x is y or (isinstance(y, (str, int, tuple)) and not isinstance(x, (PObj, PList)) and x == y and type(x) is type(y))

        def walk_model(e, a, k):
            args, kw = expect(slf, the_node)
            if len(a) == len(args) + 1 and a[0] is disp and all(same(x, y) for x, y in zip(a[1:], args)) \
                    and set(k) == set(kw) and all(same(k[n], kw[n]) for n in kw):
                return PGen(SSeq(OUT, CHUNK))
            return PGen(SSeq(z3.FreshConst(SEQ, 'wrong_walk_call'), CHUNK))
        return {'self': Const(slf), 'walk': Const(PExt('walk', walk_model)), 'dispatcher': Const(disp), 'node': Const(the_node)}
    child = PObj(object, name='child')
    rule = PObj(object, name='rule')
    nonempty = PList([child])
    cases = [
        ('Attr', {'attr': 'x', 'value': None, 'pos': 0}, {'x': child}, lambda s, n: ((child,), {'token': s}), False, 'a node'),
        ('Attr', {'attr': 'x', 'value': None, 'pos': 0}, {'x': nonempty}, lambda s, n: ((nonempty,), {'token': s}), False, 'a non-empty list'),
        ('Attr', {'attr': 'x', 'value': None, 'pos': 0}, {'x': 'text'}, lambda s, n: (('text',), {'token': s}), False, 'a string'),
        ('Attr', {'attr': 'x', 'value': None, 'pos': 0}, {'x': 0}, lambda s, n: ((0,), {'token': s}), False, 'the number 0 (falsy, not empty)'),
        ('Attr', {'attr': 'x', 'value': None, 'pos': 0}, {'x': ''}, lambda s, n: (('',), {'token': s}), False, 'the empty string (falsy, not empty)'),
        ('Attr', {'attr': 'x', 'value': None, 'pos': 0}, {'x': None}, None, True, 'None'),
        ('Attr', {'attr': 'x', 'value': None, 'pos': 0}, {'x': PList([])}, None, True, 'an empty list'),
        ('CommentsAttr', {'attr': 'comments', 'value': None, 'pos': 0}, {'comments': child}, lambda s, n: ((child,), {'token': s}), False, 'a node'),
        ('CommentsAttr', {'attr': 'comments', 'value': None, 'pos': 0}, {'comments': None}, None, True, 'None'),
        ('Operator', {'attr': 'op', 'value': None, 'pos': 0}, {'op': '+'}, lambda s, n: (('+',), {'token': s}), False, 'operator from the node'),
        ('Operator', {'attr': None, 'value': ':', 'pos': 0}, {}, lambda s, n: ((':',), {'token': s}), False, 'operator from the rule'),
        ('Text', {'attr': None, 'value': 'function', 'pos': 0}, {}, lambda s, n: (('function',), {'token': s}), False, 'a keyword'),
        ('Optional', {'attr': 'x', 'value': (rule,), 'pos': 0}, {'x': child}, lambda s, n: ((n, s.fields['value']), {}), False, 'attribute present'),
        ('Optional', {'attr': 'x', 'value': (rule,), 'pos': 0}, {'x': None}, None, True, 'attribute None'),
        ('Optional', {'attr': 'x', 'value': (rule,), 'pos': 0}, {'x': PList([])}, None, True, 'attribute an empty list'),
        ('ElisionToken', {'attr': 'value', 'value': ',', 'pos': 0}, {'value': 1}, lambda s, n: ((',',), {'token': s}), False, 'one comma'),
        ('ElisionToken', {'attr': 'value', 'value': ',', 'pos': 0}, {'value': 4}, lambda s, n: ((',,,,',), {'token': s}), False, 'four commas'),
    ]
    for cname, fields, node_fields, expect, nothing, note in cases:
        cls = getattr(module, cname)
        owner = [k for k in cls.__mro__ if '__call__' in k.__dict__][0].__name__
        params = make(cls, fields, node_fields, expect or (lambda s, n: ((NotImplemented,), {})))
        cs.append(Contract(
            MODULE + ':%s.__call__' % owner, params=params, yields=CHUNK,
            ensures=['result == empty_chunks()' if nothing else 'result == walk_output()'],
            loops=[copy_loop(0, 'out0')], uses=copy_uses(0), env=env, hints={'loops_may_be_unreachable': nothing},
            notes='%s, value: %s' % (cname, note)))
    return cs


def build_declare(module):
    """Declare.__call__ (C07: every declared parameter / variable reaches the scope handler): for a list attribute of ANY length
    the deferrable handler is called once per item, in order, with (dispatcher, item) -- `declared` is the ghost log the handler
    double appends to -- and the attribute itself is returned; a single Identifier is handed over once; None / [] are returned
    untouched and nothing is declared; without a handler nothing is called.  An item that is not an Identifier raises TypeError."""
    from vf.pyvc.dsl import ListOf
    NS = NODE.sort()
    NSEQ = z3.SeqSort(NS)
    ITEMS = z3.Const('declared_items', NSEQ)
    is_ident = z3.Function('is_identifier', NS, z3.BoolSort())
    nempty = z3.Empty(NSEQ)
    cs = []

    def nseq(x):
        if isinstance(x, PList):
            x = x.val
        if isinstance(x, SSeq):
            return x.t
        if isinstance(x, list) and not x:
            return nempty
        if isinstance(x, list):
            return z3.Concat(*[z3.Unit(v.t) for v in x]) if len(x) > 1 else z3.Unit(x[0].t)
        raise TypeError(x)

    def kt(k):
        return k.t if hasattr(k, 't') else z3.IntVal(k)

    def isinstance_model(e, a, k):
        if isinstance(a[0], SOpaque) and a[1] is module.Identifier:
            return SBool(is_ident(a[0].t))
        return e.builtin_isinstance(a[0], a[1])
    for has_handler in (True, False):
        for shape in ('list', 'one', 'none', 'empty'):
            disp, the_node = PObj(object, name='dispatcher'), PObj(object, name='node')
            slf = PObj(module.Declare, name='self')
            slf.fields['attr'] = 'params'
            declared = PList([])
            wrong = {'n': 0}
            target = {'list': PList(SSeq(ITEMS, NODE)), 'one': SOpaque(z3.Const('the_identifier', NS), NODE), 'none': None, 'empty': PList([])}[shape]
            the_node.fields['params'] = target

            def handler(e, a, k, disp=disp, declared=declared, wrong=wrong):
                # the handler of the rule set: (dispatcher, identifier)
                if len(a) == 2 and a[0] is disp and isinstance(a[1], SOpaque) and not k:
                    e.call_method(declared, "append", [a[1]], {}, None)
                else:
                    wrong['n'] += 1
                return None
            hext = PExt('deferrable_handler', handler)

            def lookup(e, a, k, slf=slf, hext=hext, has_handler=has_handler, wrong=wrong):
                if len(a) != 1 or a[0] is not slf:
                    wrong['n'] += 1
                return hext if has_handler else NotImplemented
            disp.fields['deferrable'] = PExt('Dispatcher.deferrable', lookup)

            def reset(declared=declared, wrong=wrong):
                declared.val = []
                wrong['n'] = 0
            env = {'__reset__': reset, 'isinstance': PExt('isinstance', isinstance_model), 'declared': declared,
                   'items': Helper(lambda e: PList(SSeq(ITEMS, NODE))),
                   'nprefix': Helper(lambda e, s, j: PList(SSeq(z3.Extract(nseq(s), z3.IntVal(0), kt(j)), NODE))),
                   'nprefix_step': Helper(lambda e, s, j: SBool(z3.Implies(
                       z3.And(kt(j) >= 0, kt(j) < z3.Length(nseq(s))),
                       z3.Extract(nseq(s), z3.IntVal(0), kt(j) + 1) == z3.Concat(z3.Extract(nseq(s), z3.IntVal(0), kt(j)), z3.Unit(nseq(s)[kt(j)]))))),
                   'nprefix_all': Helper(lambda e, s: SBool(z3.And(z3.Extract(nseq(s), z3.IntVal(0), z3.Length(nseq(s))) == nseq(s),
                                                                 z3.Extract(nseq(s), z3.IntVal(0), z3.IntVal(0)) == nempty))),
                   'all_identifiers': Helper(lambda e: SBool(z3.ForAll([z3.Int('i')], z3.Implies(z3.And(z3.Int('i') >= 0, z3.Int('i') < z3.Length(ITEMS)), is_ident(ITEMS[z3.Int('i')]))))),
                   'is_ident': Helper(lambda e, n: SBool(is_ident(n.t))),
                   'no_wrong_calls': Helper(lambda e, wrong=wrong: wrong['n'] == 0),
                   'the_target': Helper(lambda e, target=target: target),
                   'same': Helper(lambda e, a, b: (a is b) or (isinstance(a, PList) and isinstance(b, PList) and isinstance(a.val, SSeq) and isinstance(b.val, SSeq) and a.val.t.eq(b.val.t))
                                  or (isinstance(a, SOpaque) and isinstance(b, SOpaque) and a.t.eq(b.t)))}
            params = {'self': Const(slf), 'dispatcher': Const(disp), 'node': Const(the_node)}
            if shape == 'list':
                req = ['len(items()) > 0', 'all_identifiers()']
                ens = ['same(result, the_target())', 'no_wrong_calls()', 'declared == items()' if has_handler else 'len(declared) == 0']
                loops = [Loop(index='k', inv=['declared == nprefix(items(), k)'], modifies=('declared',), types={'declared': ListOf(NODE)})]
                uses = {'entry': ['nprefix_all(items())'], 'loop0.entry': ['nprefix_all(items())'], 'loop0.preserve': ['nprefix_step(items(), k - 1)'],
                        'loop0.exit': ['nprefix_all(items())'], 'post': ['nprefix_all(items())']}
            elif shape == 'one':
                req = ['is_ident(the_target())']
                ens = ['same(result, the_target())', 'no_wrong_calls()', ('len(declared) == 1 and same(declared[0], the_target())') if has_handler else 'len(declared) == 0']
                loops, uses = [Loop(index='k', inv=['True'])], {}
            else:
                req = []
                ens = ['result is the_target()', 'len(declared) == 0', 'no_wrong_calls()']
                loops, uses = [Loop(index='k', inv=['True'])], {}
            cs.append(Contract(MODULE + ':Declare.__call__', params=params, requires=req, ensures=ens, loops=loops, uses=uses, env=env,
                               hints={'loops_may_be_unreachable': shape != 'list' or not has_handler},
                               notes='attribute: %s, %s' % ({'list': 'a list of identifiers (any length)', 'one': 'one identifier', 'none': 'None', 'empty': 'an empty list'}[shape],
                                                            'handler present' if has_handler else 'no handler')))
    return cs


def build_deferrables(module):
    """Resolve / Literal / Comment.__call__ (C07: every occurrence of an identifier prints what the obfuscator's handler
    answers for exactly this node; C13 / C01 / C02: literals and comments likewise): the handler the dispatcher holds for
    THIS rule object is called exactly once with (dispatcher, node) and its answer is returned unchanged; without a handler
    the node's own text is returned (Comment: nothing); Resolve refuses a node that is not an Identifier before anything is
    looked up.  The handler double answers a wrong call (other arguments, a second call) with a fresh string, the lookup double
    counts a lookup for another rule object.  Attr._getattr / Operator._getattr: the attribute named, a Deferrable's answer
    for exactly (dispatcher, node), the rule's own value for an Operator without attribute name.  Iter: iter(node)."""
    from vf.pyvc.dsl import Str
    cs = []
    for cname in ('Resolve', 'Literal', 'Comment'):
        cls = getattr(module, cname)
        for has_handler in (True, False):
            for is_ident in ((True, False) if cname == 'Resolve' else (True,)):
                disp = PObj(object, name='dispatcher')
                the_node = PObj(module.Identifier if is_ident else module.Elision, name="node")
                slf = PObj(cls, name='self')
                state = {'wrong': 0, 'calls': 0, 'answer': None, 'text': None}

                def handler(e, a, k, disp=disp, the_node=the_node, state=state):
                    state['calls'] += 1
                    if len(a) == 2 and a[0] is disp and a[1] is the_node and not k and state['calls'] == 1:
                        return state['answer']
                    state['wrong'] += 1
                    return e.fresh(Str, 'wrong_handler_call')
                hext = PExt('deferrable_handler', handler)

                def lookup(e, a, k, slf=slf, hext=hext, has_handler=has_handler, state=state):
                    if len(a) != 1 or a[0] is not slf or k:
                        state['wrong'] += 1
                    return hext if has_handler else NotImplemented
                disp.fields['deferrable'] = PExt('Dispatcher.deferrable', lookup)

                def reset(e=None, state=state, the_node=the_node):
                    state.update(wrong=0, calls=0)
                    state['answer'] = Str.fresh('handler_answer')
                    state['text'] = Str.fresh('node_value')
                    the_node.fields['value'] = state['text']
                reset()
                env = {'__reset__': reset,
                       'answer': Helper(lambda e, state=state: state['answer']),
                       'node_text': Helper(lambda e, state=state: state['text']),
                       'calls': Helper(lambda e, state=state: state['calls']),
                       'no_wrong_calls': Helper(lambda e, state=state: state['wrong'] == 0)}
                params = {'self': Const(slf), 'dispatcher': Const(disp), 'node': Const(the_node)}
                note = '%s, %s' % ('handler present' if has_handler else 'no handler', 'an Identifier' if is_ident else 'not an Identifier')
                if not is_ident:
                    cs.append(Contract(MODULE + ':%s.__call__' % cname, params=params, raises={'TypeError': 'True'},
                                       ensures=['False'], env=env, notes=note + ' (TypeError, nothing called)'))
                    continue
                if has_handler:
                    ens = ['result == answer()', 'calls() == 1', 'no_wrong_calls()']
                elif cname == 'Comment':
                    ens = ['result is None', 'calls() == 0', 'no_wrong_calls()']
                else:
                    ens = ['result == node_text()', 'calls() == 0', 'no_wrong_calls()']
                cs.append(Contract(MODULE + ':%s.__call__' % cname, params=params, ensures=ens, env=env, notes=note))
    return cs

"""Sidecar contracts for parsers/optimize.py (property C17): which files the helpers remove and how the
modules are regenerated.

A stale generated module that survives is loaded by every later default Parser() (ply's optimised mode does
not check signatures), so the contracts pin: every tab module that could be imported is removed (through
verify_paths, which adds the byte-code siblings) before the Parser is rebuilt, the rebuilt Parser is given
exactly the generated names, and the monkey patch makes ply write the modules as UTF-8 whatever the locale."""
from vf.pyvc.dsl import Contract, Const, OneOf, Helper, PExt, PObj, PList, Str

MODULE = 'calmjs.parse.parsers.optimize'


def build(optmod):
    cs = []
    rec = {}

    def reset():
        rec.clear()
        rec['log'] = []

    def same(eng, a, b):
        if a is b:
            return True
        if isinstance(a, (PList, PObj)) or isinstance(b, (PList, PObj)):
            return False        # containers and objects are compared by identity
        try:
            return eng.compare(__import__('ast').Eq(), a, b)
        except Exception:
            return False

    def log(what):
        def fn(e, a, k):
            rec['log'].append((what, a, dict(k)))
            return rec.setdefault('ret_' + what, PObj(object, name='ret_' + what))
        return fn

    # ---- optimize_build
    for nmissing in (0, 1, 2):
        def validate(e, a, k, nmissing=nmissing):
            rec['log'].append(('validate_imports', a, dict(k)))
            rec['paths'] = PList([Str.fresh('path%d' % i) for i in range(2 - nmissing)])
            rec['missing'] = PList([Str.fresh('missing%d' % i) for i in range(nmissing)])
            return (rec['paths'], rec['missing'])

        def gen_names(e, a, k):
            rec['log'].append(('generate_tab_names', a, dict(k)))
            rec['names'] = (Str.fresh('lextab_name'), Str.fresh('yacctab_name'))
            return rec['names']

        def imp(e, a, k):
            rec['log'].append(('import_module', a, dict(k)))
            m = PObj(object, name='module')
            m.fields['Parser'] = PExt('module.Parser', log('Parser'))
            return m
        env = {'__reset__': reset, 'validate_imports': PExt('validate_imports', validate),
               'generate_tab_names': PExt('generate_tab_names', gen_names), 'import_module': PExt('import_module', imp),
               'verify_paths': PExt('verify_paths', log('verify_paths')), 'unlink_modules': PExt('unlink_modules', log('unlink_modules')),
               '_assume_ply_version': PExt('_assume_ply_version', lambda e, a, k: Str.fresh('plyver')),
               'calls': Helper(lambda e, what: len([x for x in rec['log'] if x[0] == what])),
               'arg_is': Helper(lambda e, what, i, v: any(x[0] == what and len(x[1]) > i and same(e, x[1][i], v) for x in rec['log'])),
               'kw_is': Helper(lambda e, what, key, v: any(x[0] == what and key in x[2] and same(e, x[2][key], v) for x in rec['log'])),
               'found_paths': Helper(lambda e: rec['paths']), 'verified': Helper(lambda e: rec.get('ret_verify_paths')),
               'lextab_name': Helper(lambda e: rec['names'][0]), 'yacctab_name': Helper(lambda e: rec['names'][1]),
               'order': Helper(lambda e, a, b: [x[0] for x in rec['log']].index(a) < [x[0] for x in rec['log']].index(b))}
        if nmissing:
            ens = ["calls('verify_paths') == 1", "arg_is('verify_paths', 0, found_paths())", "calls('unlink_modules') == 1",
                   "arg_is('unlink_modules', 0, verified())", "calls('Parser') == 1", "kw_is('Parser', 'lextab', lextab_name())",
                   "kw_is('Parser', 'yacctab', yacctab_name())", "order('unlink_modules', 'Parser')",
                   "arg_is('validate_imports', 0, lextab_name())", "arg_is('validate_imports', 1, yacctab_name())"]
        else:
            ens = ["calls('unlink_modules') == 0", "calls('Parser') == 0"]
        cs.append(Contract(MODULE + ':optimize_build', params={'module_name': Str, 'assume_ply_version': OneOf(Const(True), Const(False))},
                           ensures=ens, env=env, notes='%d of the 2 tab modules missing' % nmissing))
    # ---- purge_tabs / reoptimize
    def find(e, a, k):
        rec['log'].append(('find_tab_paths', a, dict(k)))
        rec['paths'] = PList([Str.fresh('path0'), Str.fresh('path1')])
        return (rec['paths'], PList([]))
    env2 = {'__reset__': reset, 'find_tab_paths': PExt('find_tab_paths', find), 'verify_paths': PExt('verify_paths', log('verify_paths')),
            'unlink_modules': PExt('unlink_modules', log('unlink_modules')),
            'calls': Helper(lambda e, what: len([x for x in rec['log'] if x[0] == what])),
            'arg_is': Helper(lambda e, what, i, v: any(x[0] == what and len(x[1]) > i and same(e, x[1][i], v) for x in rec['log'])),
            'found_paths': Helper(lambda e: rec['paths']), 'verified': Helper(lambda e: rec.get('ret_verify_paths'))}

    class Mod(object):
        def make(self, name):
            m = PObj(object, name='module')
            m.fields['Parser'] = PExt('module.Parser', log('Parser'))
            return m
    cs.append(Contract(MODULE + ':purge_tabs', params={'module': Mod()},
                       ensures=["arg_is('find_tab_paths', 0, module)", "arg_is('verify_paths', 0, found_paths())",
                                "calls('unlink_modules') == 1", "arg_is('unlink_modules', 0, verified())"], env=env2))
    # ... also when only one of the two generated modules exists (the other is reported missing): the one that is there is stale
    # all the same and must go
    for npresent in (1, 0):
        def find_some(e, a, k, npresent=npresent):
            rec['log'].append(('find_tab_paths', a, dict(k)))
            rec['paths'] = PList([Str.fresh('path%d' % i) for i in range(npresent)])
            return (rec['paths'], PList([Str.fresh('missing%d' % i) for i in range(2 - npresent)]))
        cs.append(Contract(MODULE + ':purge_tabs', params={'module': Mod()},
                           ensures=["arg_is('find_tab_paths', 0, module)", "arg_is('verify_paths', 0, found_paths())",
                                    "calls('unlink_modules') == 1", "arg_is('unlink_modules', 0, verified())"],
                           env=dict(env2, find_tab_paths=PExt('find_tab_paths', find_some)), notes='%d of the 2 generated modules present' % npresent))
    env3 = {'__reset__': reset, 'purge_tabs': PExt('purge_tabs', log('purge_tabs')),
            'calls': env2['calls'], 'arg_is': env2['arg_is'],
            'order': Helper(lambda e, a, b: [x[0] for x in rec['log']].index(a) < [x[0] for x in rec['log']].index(b))}
    cs.append(Contract(MODULE + ':reoptimize', params={'module': Mod()},
                       ensures=["arg_is('purge_tabs', 0, module)", "calls('Parser') == 1", "order('purge_tabs', 'Parser')"], env=env3))
    return cs, [], {}


def build_validate(optmod):
    """validate_imports: every tab module that can be imported is reported by its file AND is gone from sys.modules afterwards --
    whether or not it had been loaded before the call (a copy left in sys.modules is what ply would "import" instead of
    rebuilding after the files are removed); modules that cannot be imported are reported missing."""
    import itertools
    cs = []
    names = ('pkg.lextab_x', 'pkg.yacctab_x')
    for importable in itertools.product((True, False), repeat=2):
        for preloaded in itertools.product((True, False), repeat=2):
            if any(p_ and not i_ for p_, i_ in zip(preloaded, importable)):
                continue
            state = {}

            def reset(state=state, importable=importable, preloaded=preloaded):
                state.clear()
                state['modules'] = dict((n, PObj(object, {'__file__': '/p/%s.py' % n}, name='mod_' + n)) for n, p_ in zip(names, preloaded) if p_)
                state['files'] = dict(zip(names, importable))
            sysm = PObj(object, name='sys')
            mods = PObj(object, name='sys.modules')

            def imp(e, a, k, state=state):
                n = a[0]
                if not state['files'].get(n):
                    from vf.pyvc.engine import PyRaise, PExc
                    raise PyRaise(PExc(ImportError, tag=n))
                if n not in state['modules']:
                    state['modules'][n] = PObj(object, {'__file__': '/p/%s.py' % n}, name='mod_' + n)
                return state['modules'][n]

            def m_pop(e, a, k, state=state):
                return state['modules'].pop(a[0]) if len(a) == 1 else state['modules'].pop(a[0], a[1])
            mods.fields['pop'] = PExt('dict.pop', m_pop)
            mods.fields['get'] = PExt('dict.get', lambda e, a, k, state=state: state['modules'].get(a[0], a[1] if len(a) > 1 else None))
            mods.fields['__delitem__'] = PExt('dict.__delitem__', lambda e, a, k, state=state: state['modules'].pop(a[0]))
            mods.fields['__contains__'] = PExt('dict.__contains__', lambda e, a, k, state=state: a[0] in state['modules'])
            mods.fields['__getitem__'] = PExt('dict.__getitem__', lambda e, a, k, state=state: state['modules'][a[0]])
            sysm.fields['modules'] = mods
            env = {'__reset__': reset, 'sys': sysm, 'import_module': PExt('import_module', imp),
                   'cached': Helper(lambda e, state=state: sorted(state['modules'])),
                   'want_paths': Helper(lambda e, importable=importable: ['/p/%s.py' % n for n, i_ in zip(names, importable) if i_]),
                   'want_missing': Helper(lambda e, importable=importable: [n for n, i_ in zip(names, importable) if not i_])}
            cs.append(Contract(MODULE + ':validate_imports', params={'imports': Const(names)},
                               ensures=['list(result[0]) == want_paths()', 'list(result[1]) == want_missing()', 'cached() == []'],
                               env=env, notes='importable=%s preloaded=%s' % (importable, preloaded)))
    return cs


def build_all(optmod):
    """reoptimize_all: with monkey_patch the file ply writes is opened as UTF-8 whatever the locale, and every parser
    module goes through reoptimize / optimize_build."""
    cs = []
    rec = {}

    def reset():
        rec.clear()
        rec['log'] = []

    def part(e, a, k):
        rec['partial'] = (a, dict(k))
        return PObj(object, name='patched_open')

    def log(what):
        def fn(e, a, k):
            rec['log'].append((what, a, dict(k)))
            return PObj(object, name='ret_' + what)
        return fn
    for first in (False, True):
        class Ply(object):
            pass
        ply = PObj(object, name='ply')
        lex = PObj(object, name='ply.lex')
        lex.fields['open'] = 'BUILTIN_OPEN'
        ply.fields['lex'] = lex

        def imp(e, a, k):
            rec['log'].append(('import_module', a, dict(k)))
            return PObj(object, name='es5module')
        env = {'__reset__': reset, '__modules__': {'ply': ply}, 'partial': PExt('functools.partial', part),
               'optimize_build': PExt('optimize_build', log('optimize_build')), 'reoptimize': PExt('reoptimize', log('reoptimize')),
               'import_module': PExt('import_module', imp),
               'patched': Helper(lambda e, lex=lex: lex.fields['open'] != 'BUILTIN_OPEN'),
               'patch_encoding': Helper(lambda e: rec.get('partial', ((), {}))[1].get('encoding')),
               'calls': Helper(lambda e, what: len([x for x in rec['log'] if x[0] == what]))}

        def fresh_lex(lex=lex):
            lex.fields['open'] = 'BUILTIN_OPEN'
        env['__reset__'] = (lambda r=reset, f=fresh_lex: (r(), f()))
        ens = ["patched()", "patch_encoding() == 'utf8'"]
        ens += ["calls('optimize_build') == 1", "calls('reoptimize') == 0"] if first else ["calls('reoptimize') == 1", "calls('optimize_build') == 0"]
        cs.append(Contract(MODULE + ':reoptimize_all', params={'monkey_patch': Const(True), 'first_build': Const(first)},
                           ensures=ens, env=env, notes='monkey_patch=True first_build=%s' % first))
    return cs


def build_unlink(optmod):
    """unlink_modules: every given path is handed to unlink once, in order; a path that cannot be removed (permission, read-only
    file system) stops the helper with that error -- it must not report success while an old generated module is still there
    (the next default Parser() would load it).  Lists of <= 3 paths; each unlink may fail."""
    from vf.pyvc.engine import PyRaise, PExc
    cs = []
    rec = {}

    def reset():
        rec.clear()
        rec.update(calls=[], failed=0)

    def unlink(e, a, k):
        rec['calls'].append(list(a))
        if e.decide_free('unlink_fails_%d' % len(rec['calls'])):
            rec['failed'] += 1
            raise PyRaise(PExc(PermissionError, tag='unlink'))
        return None
    for n in (0, 1, 3):
        paths = ['/pkg/tab%d.py' % i for i in range(n)]
        env = {'__reset__': reset, 'unlink': PExt('os.unlink', unlink),
               'unlinked': Helper(lambda e: [c[0] for c in rec['calls'] if len(c) == 1]), 'failed': Helper(lambda e: rec['failed'])}
        cs.append(Contract(MODULE + ':unlink_modules', params={'paths': Const(tuple(paths))},
                           ensures=['failed() == 0', 'unlinked() == %r' % (paths,)],
                           raises={'PermissionError': 'failed() == 1 and unlinked() == %r[:len(unlinked())]' % (paths,)},
                           env=env, notes='%d paths' % n))
    return cs

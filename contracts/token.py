"""Sidecar contract of Lexer._token (property C05): which of the two readers is applied to a `/`.

State view.  `real` = self.cur_token_real, the last token that is not a line terminator or comment (the type
invariant "never a layout token" is established by _set_tokens, contracts/asi.py).  `marker` = token_stack[-1][0]:
the token before the current one at this parenthesis depth -- except directly after the `)` that closes an
if/for/while/with header, where it still is the header keyword (contracts/asi.py: _get_update_token).  A division
is *permitted* (div_ok) iff real is an operand-ending token and the marker does not say "header just closed".

Contract = preconditions of the two readers, checked at each of their call sites, for texts of any length:
  _read_regex()        requires: the next non-ignored character q is a `/`, it does not start a comment, and not div_ok;
  _get_update_token()  requires: not (q is a `/` that does not start a comment and not div_ok)
                       (ply's master pattern would read such a `/` as DIV or DIVEQUAL);
q = skip(lexdata, lexpos) is an uninterpreted function with its defining unfoldings revealed where used; the scanning
loop carries  skip(pos) == skip(lexpos).  The loops are cut (arbitrary iteration from an arbitrary lexer state), the
state the readers leave behind is their own contract (havoc here)."""
import z3

from vf.pyvc.dsl import Contract, Loop, Const, OneOf, Helper, PExt, PObj, PList, Str, Int, Bool, SBool, SInt, SStr
from vf.pyvc.engine import PLazy, PText

LEX = 'calmjs.parse.lexers.es5'
SKIP = z3.Function('skip', z3.IntSort(), z3.IntSort())      # over the one text of the contract


def tok(name, ty=None):
    o = PObj(object, name=name)
    o.fields.update(type=ty if ty is not None else Str.fresh(name + '_type'), value=Str.fresh(name + '_value'))
    return o


def build(lexmod):
    Lexer = lexmod.Lexer
    IGN = Lexer.t_ignore
    IMPLY = sorted(lexmod.TOKENS_THAT_IMPLY_DIVISON)
    MARKERS = sorted(lexmod.DIVISION_SYNTAX_MARKERS)
    rec = {}

    def in_set(t, names):
        return z3.Or(*[t == z3.StringVal(n) for n in names])

    def ty(o):
        t = o.fields['type']
        return t.t if hasattr(t, 't') else z3.StringVal(t)

    def ignored(cp):
        return z3.Or(*[cp == ord(c) for c in sorted(set(IGN))])

    def skip_unfold(text, p):
        """defining equations of skip at index p: the first index >= p holding a character that is not ignored (len if none)"""
        n = text.n
        cp = text.ch(p)
        return z3.And(
            z3.Implies(p >= n, SKIP(p) == n),
            z3.Implies(z3.And(p >= 0, p < n, z3.Not(ignored(cp))), SKIP(p) == p),
            z3.Implies(z3.And(p >= 0, p < n, ignored(cp)), SKIP(p) == SKIP(p + 1)))

    def div_ok(o, e):
        real = e.getattr(o, 'cur_token_real')
        prev = e.getattr(o, 'prev_token')
        marker = e.getattr(o, 'token_stack').val[-1].val[0]
        if real is None:
            return z3.BoolVal(False)
        operand = in_set(ty(real), IMPLY)
        if marker is None or marker is prev:
            return operand
        return z3.And(operand, in_set(ty(marker), IMPLY))

    def slash_needs_regex(o, e):
        """the next non-ignored character is a `/` that starts neither kind of comment, where no division is permitted"""
        lx = o.fields['lexer']
        text, pos = lx.fields['lexdata'], lx.fields['lexpos'].t
        q = SKIP(pos)
        slash = z3.And(q + 1 < text.n, text.ch(q) == ord('/'), text.ch(q + 1) != ord('/'), text.ch(q + 1) != ord('*'))
        if not e.decide(slash):
            return z3.BoolVal(False)
        return z3.Not(div_ok(o, e))

    class State(object):
        """self: an arbitrary lexer state"""
        wants_engine = True

        def __init__(self, queued):
            self.queued = queued

        def make(self, name, eng=None):
            rec.clear()
            rec['calls'] = []
            o = PObj(Lexer, name='self')
            lx = PObj(object, name='plylexer')
            text = PText('lexdata')
            rec['text'] = text
            lx.fields.update(lexdata=text, lexpos=Int.fresh('lexpos'))
            o.fields['lexer'] = lx
            o.fields['t_ignore'] = IGN
            o.fields['next_tokens'] = PList([tok('queued')] if self.queued else [])
            rec['queued'] = o.fields['next_tokens'].val[0] if self.queued else None
            o.fields['yield_comments'] = Bool.fresh('yield_comments')
            o.fields['with_comments'] = Bool.fresh('with_comments')
            o.fields['hidden_tokens'] = PList([])
            rec['self'] = o
            self.havoc_state(o, 'entry', eng)

            def gut(e, a, k):
                # precondition of the master-pattern reader
                e.assume(skip_unfold(text, lx.fields['lexpos'].t))
                e.oblige('Lexer._token.pre[_get_update_token]#%d' % len(rec['calls']), z3.Not(slash_needs_regex(o, e)), kind='assert')
                rec['calls'].append('gut')
                # its effect (its own contract): some token or None, the lexer state moves on
                self.havoc_state(o, 'after_gut%d' % len(rec['calls']), e)
                old_pos = lx.fields['lexpos']
                if e.decide_free('gut_returns_none'):
                    return None
                # assumed ply contract: a token consumes at least one character of the text and ends inside it
                lx.fields['lexpos'] = Int.fresh('lexpos_after')
                e.assume(z3.And(lx.fields['lexpos'].t > old_pos.t, lx.fields['lexpos'].t <= text.n))
                t = tok('tok%d' % len(rec['calls']))
                rec['last_tok'] = t
                return t

            def rrx(e, a, k):
                e.assume(skip_unfold(text, lx.fields['lexpos'].t))
                e.oblige('Lexer._token.pre[_read_regex]#%d' % len(rec['calls']), slash_needs_regex(o, e), kind='assert')
                rec['calls'].append('regex')
                t = tok('regex_tok', 'REGEX')
                rec['last_tok'] = t
                return t

            def st(e, a, k):
                rec['calls'].append('set')
                o.fields['cur_token'] = a[0]
            o.fields['_get_update_token'] = PExt('Lexer._get_update_token', gut)
            o.fields['_read_regex'] = PExt('Lexer._read_regex', rrx)
            o.fields['_set_tokens'] = PExt('Lexer._set_tokens', st)
            return o

        def havoc_state(self, o, tag, eng):
            """arbitrary look-behind state, materialised lazily (only what the code reads is case-split)"""
            def opt(nm, inv=None):
                def thunk(e):
                    if e.decide_free('%s_%s_is_none' % (nm, tag)):
                        return None
                    t = tok('%s_%s' % (nm, tag))
                    if inv is not None:
                        e.assume(inv(t))
                    return t
                return PLazy(thunk)

            def stack(e):
                which = 0 if e.decide_free('marker_%s_none' % tag) else (1 if e.decide_free('marker_%s_prev' % tag) else 2)
                prev = e.getattr(o, 'prev_token')
                if which == 1 and prev is None:
                    which = 0
                marker = None if which == 0 else (prev if which == 1 else tok('marker_' + tag))
                return PList([PList([marker, PList([])])])
            o.fields.update(cur_token_real=opt('real', lambda t: z3.Not(in_set(ty(t), MARKERS))),      # type invariant kept by _set_tokens
                            prev_token=opt('prev'), cur_token=opt('cur'), token_stack=PLazy(stack))

        def __repr__(self):
            return 'LexerState(queued=%s)' % self.queued

    class Rehavoc(object):
        """loop head: the lexer state is whatever the readers left (same text, a position inside it)"""

        def __init__(self, st):
            self.st = st

        def havoc_obj(self, eng, obj, tag):
            self.st.havoc_state(obj, tag, eng)
            obj.fields['hidden_tokens'] = PList([])
            lx = obj.fields['lexer']
            lx.fields['lexpos'] = Int.fresh('lexpos_' + tag)
            eng.assume(lx.fields['lexpos'].t >= 0)

    def same_data(eng):
        return True

    env = {'skip': Helper(lambda e, data, p: SInt(SKIP(p.t if hasattr(p, 't') else z3.IntVal(p)))),
           'unfolded': Helper(lambda e, data, p: SBool(skip_unfold(data, p.t if hasattr(p, 't') else z3.IntVal(p)))),
           'calls': Helper(lambda e: list(rec['calls'])), 'queued': Helper(lambda e: rec['queued']),
           'last_tok': Helper(lambda e: rec.get('last_tok')),
           'DIVISION_SYNTAX_MARKERS': lexmod.DIVISION_SYNTAX_MARKERS, 'COMMENTS': lexmod.COMMENTS,
           'TOKENS_THAT_IMPLY_DIVISON': lexmod.TOKENS_THAT_IMPLY_DIVISON}
    class CharT(object):
        def make(self, name):
            from vf.pyvc.engine import SChar
            return SChar(z3.FreshConst(z3.IntSort(), name))
    cs = []
    cs.append(Contract(LEX + ':Lexer._token', params={'self': State(True)}, ensures=['result is queued()', 'len(self.next_tokens) == 0', 'len(calls()) == 0'],
                       env=env, notes='a pushed-back token is delivered first'))
    st = State(False)

    class SelfFields(dict):
        pass
    outer = Loop(inv=['lexer is self.lexer', 'lexer.lexpos <= len(lexer.lexdata)'], variant='len(lexer.lexdata) - lexer.lexpos', types={'self': Rehavoc(st), 'tok': OneOf(Const(None), Const(None))}, modifies=('self',))
    inner = Loop(inv=['pos >= lexer.lexpos', 'pos < len(lexer.lexdata)', 'skip(lexer.lexdata, pos) == skip(lexer.lexdata, lexer.lexpos)',
                      'char == lexer.lexdata[pos]'],
                 types={'pos': Int, 'char': CharT()}, variant='len(lexer.lexdata) - pos')
    cs.append(Contract(LEX + ':Lexer._token', params={'self': st},
                       requires=['self.lexer.lexpos >= 0', 'self.lexer.lexpos <= len(self.lexer.lexdata)'],
                       ensures=['result is None or result is last_tok()'],
                       loops=[outer, inner], env=env, hints={'index_raises': True},
                       uses={'loop1.body': ['unfolded(lexer.lexdata, pos)', 'unfolded(lexer.lexdata, pos + 1)'],
                             'loop1.exit': ['unfolded(lexer.lexdata, pos)']},
                       notes='scanning: which reader is applied'))
    return cs

"""Sidecar contracts for calmjs.parse.sourcemap (property C09).

Names: abstract view = injective map name -> index onto [0, size) plus the current index; `update`
returns the delta the Source Map V3 format wants (index relative to the previous one) and keeps every
index in range.  Bookkeeper: per attribute a (previous, current) pair; reading gives current - previous
(the relative value V3 wants), `_name` reads/sets the absolute value."""
import z3

from vf.pyvc.dsl import (Contract, Obj, OneOf, Const, Int, Str, Helper, MapStrInt, DictWith, PMap, SBool, SInt)

MODULE = 'calmjs.parse.sourcemap'
S = z3.StringSort()


def _inv(eng, m, cur):
    k, k2 = z3.Const('k', S), z3.Const('k2', S)
    c = cur.t if hasattr(cur, 't') else z3.IntVal(cur)
    return SBool(z3.And(
        m.size >= 0, c >= 0,
        z3.Implies(m.size > 0, c < m.size),
        z3.ForAll([k], z3.Implies(z3.Select(m.dom, k), z3.And(z3.Select(m.val, k) >= 0, z3.Select(m.val, k) < m.size))),
        z3.ForAll([k, k2], z3.Implies(z3.And(z3.Select(m.dom, k), z3.Select(m.dom, k2),
                                            z3.Select(m.val, k) == z3.Select(m.val, k2)), k == k2))))


def _same(eng, a, b):
    return SBool(z3.And(a.dom == b.dom, a.val == b.val, a.size == b.size))


def _same_except(eng, a, b, key):
    k = z3.Const('k', S)
    kt = key.t if hasattr(key, 't') else z3.StringVal(key)
    return SBool(z3.ForAll([k], z3.Implies(k != kt, z3.And(z3.Select(a.dom, k) == z3.Select(b.dom, k),
                                                         z3.Select(a.val, k) == z3.Select(b.val, k)))))


def _has(eng, m, key):
    return SBool(z3.Select(m.dom, key.t if hasattr(key, 't') else z3.StringVal(key)))


def _get(eng, m, key):
    return SInt(z3.Select(m.val, key.t if hasattr(key, 't') else z3.StringVal(key)))


def _size(eng, m):
    return SInt(m.size)


def build(module):
    Names, Bookkeeper, Book = module.Names, module.Bookkeeper, module.Book
    env = {'m_inv': Helper(_inv), 'm_same': Helper(_same), 'm_same_except': Helper(_same_except),
           'm_has': Helper(_has), 'm_get': Helper(_get), 'm_size': Helper(_size),
           '__inline__': {MODULE + ':Bookkeeper._hasattr'}}
    NAMES = Obj(Names, {'_names': MapStrInt(), '_current': Int})
    cs = [
        Contract(MODULE + ':Names.update', params={'self': NAMES, 'name': Const(None)},
                 requires=['m_inv(self._names, self._current)'],
                 ensures=['result is None', 'm_same(self._names, old(self._names))', 'self._current == old(self._current)'],
                 env=env, notes='name None: nothing changes'),
        Contract(MODULE + ':Names.update', params={'self': NAMES, 'name': Str},
                 requires=['m_inv(self._names, self._current)'],
                 ensures=['m_inv(self._names, self._current)',
                          'm_has(self._names, name)',
                          'result == m_get(self._names, name) - old(self._current)',
                          'self._current == m_get(self._names, name)',
                          '0 <= self._current and self._current < m_size(self._names)',
                          'm_same_except(self._names, old(self._names), name)',
                          'implies(m_has(old(self._names), name), m_same(self._names, old(self._names)))',
                          'implies(not m_has(old(self._names), name), m_get(self._names, name) == m_size(old(self._names))'
                          ' and m_size(self._names) == m_size(old(self._names)) + 1)'],
                 modifies=['self._names', 'self._current'], env=env),
    ]
    # Bookkeeper: attribute present in both dicts / in neither
    for present in (True, False):
        d = {'sink_column': Int} if present else {}
        BK = Obj(Bookkeeper, {'_prev': DictWith(d), '_curr': DictWith(d)})
        for attr in ('sink_column', '_sink_column'):
            chk = attr.startswith('_')
            if present and not chk:
                post = ["self._curr['sink_column'] == value", "self._prev['sink_column'] == old(self._curr['sink_column'])"]
            else:
                post = ["self._curr['sink_column'] == value", "self._prev['sink_column'] == value"]
            cs.append(Contract(MODULE + ':Bookkeeper.__setattr__',
                               params={'self': BK, 'attr': Const(attr), 'value': Int},
                               ensures=post + ['result is None'], env=env,
                               notes='present=%s attr=%s' % (present, attr)))
            cs.append(Contract(MODULE + ':Bookkeeper.__setattr__',
                               params={'self': BK, 'attr': Const(attr), 'value': OneOf(Const('7'), Const(None), Const(1.5))},
                               ensures=['False'], raises={'TypeError': True}, env=env,
                               notes='non-int value is rejected, present=%s attr=%s' % (present, attr)))
            if present:
                want = "self._curr['sink_column']" if chk else "self._curr['sink_column'] - self._prev['sink_column']"
                cs.append(Contract(MODULE + ':Bookkeeper.__getattr__', params={'self': BK, 'attr': Const(attr)},
                                   ensures=['result == ' + want], env=env, notes='attr=%s' % attr))
            else:
                cs.append(Contract(MODULE + ':Bookkeeper.__getattr__', params={'self': BK, 'attr': Const(attr)},
                                   ensures=['False'], raises={'AttributeError': True}, env=env,
                                   notes='unknown attribute raises, attr=%s' % attr))
        if present:
            cs.append(Contract(MODULE + ':Bookkeeper.__delattr__', params={'self': BK, 'attr': Const('sink_column')},
                               ensures=["self._curr['sink_column'] == 0", "self._prev['sink_column'] == 0"], env=env))
        else:
            cs.append(Contract(MODULE + ':Bookkeeper.__delattr__', params={'self': BK, 'attr': Const('sink_column')},
                               ensures=['False'], raises={'AttributeError': True}, env=env))
    return cs, [], env

"""Sidecar contract of sourcemap.normalize_mapping_line (property C09, "with mapping normalisation on, by linear
interpolation from the preceding segment").

Views.  The input line is a sequence of relative segments; its *absolute* view (ghost g, s, l, c, nm) is the running sum of
generated column, source index, source line, source column and name index.  The output list is abstracted by the same
running sums (folds og, os, ol, oc, on), its length and its last element.  A Source Map V3 consumer that has decoded the
normalised lines so far is `previous_source_column` source columns behind the true position (that is what the second
result, the carry, means).

Post-condition per input segment (asserted at the end of every iteration, i.e. for every segment of a line of any length):
a consumer that interpolates linearly from the last emitted segment sees, at the generated column of the segment, exactly
the source file, line and column the segment has; a named segment is emitted itself, at its own column, with its name; text
after a terminator is unmapped.  Later segments are appended at columns >= the current one, so what holds when a segment is
processed holds for the finished line unless a later segment sits at the very same generated column (zero width)."""
import z3

from vf.pyvc.dsl import Contract, Loop, Int, Bool, Helper, SInt, SBool, PList, PExt, Opaque
from vf.pyvc.engine import PAbsSeq, FoldSpec, FoldAbs

MODULE = 'calmjs.parse.sourcemap'


def _t(x):
    return x.t if hasattr(x, 't') else z3.IntVal(x)


FOLDS = {
    'og': lambda f, x: f['og'] + _t(x[0]),
    'os': lambda f, x: f['os'] + (_t(x[1]) if len(x) >= 4 else 0),
    'ol': lambda f, x: f['ol'] + (_t(x[2]) if len(x) >= 4 else 0),
    'oc': lambda f, x: f['oc'] + (_t(x[3]) if len(x) >= 4 else 0),
    'on': lambda f, x: f['on'] + (_t(x[4]) if len(x) == 5 else 0),
}
SPEC = FoldSpec(kinds=(1, 4, 5), width=5, folds=FOLDS)


def _fold(eng, lst, name):
    v = lst.val if isinstance(lst, PList) else lst
    if isinstance(v, FoldAbs):
        return SInt(v.folds[name])
    return SInt(z3.simplify(SPEC.of_list(list(v))[name]))


def _lastlen(eng, lst):
    v = lst.val if isinstance(lst, PList) else lst
    if isinstance(v, FoldAbs):
        return SInt(v.last_kind) if v.last is None else len(v.last)
    return len(v[-1]) if v else 0


class Line(object):
    """mapping_line: any number of segments, each (), (dcol,), (dcol, dsrc, dline, dscol) or (.., dname); generated columns
    do not decrease within a line (dcol >= 0) -- the only thing assumed about the contents"""

    def make(self, name):
        return PAbsSeq(name, kinds=(0, 1, 4, 5), width=5, elem_facts=lambda e: [e[0].t >= 0] if len(e) else [])

    def __repr__(self):
        return 'Line'


class Record(object):
    """the 4-element running record (list of ints)"""

    def havoc_list(self, eng, name):
        return [SInt(z3.FreshConst(z3.IntSort(), '%s_%d' % (name, i))) for i in range(4)]


def build(module):
    env = {'fold': Helper(_fold), 'lastlen': Helper(_lastlen)}
    inv = [
        "fold(result, 'og') + record[0] == g",
        "fold(result, 'os') == s", "fold(result, 'ol') == l", "fold(result, 'on') == nm",
        "fold(result, 'oc') + record[3] == c + previous_source_column",
        'record[0] >= 0',
        'regen_next == (len(result) == 0 or lastlen(result) != 4)',
    ]
    ghost_step = ['''
if len(segment) >= 1:
    g = g + segment[0]
if len(segment) >= 4:
    s = s + segment[1]
    l = l + segment[2]
    c = c + segment[3]
if len(segment) == 5:
    nm = nm + segment[4]
if len(segment) >= 4:
    assert len(result) > 0 and lastlen(result) >= 4, 'a mapped segment is in force'
    assert fold(result, 'os') == s and fold(result, 'ol') == l, 'source file and line seen by the consumer'
    assert fold(result, 'oc') - previous_source_column + (g - fold(result, 'og')) == c, 'interpolated source column'
if len(segment) == 5:
    assert lastlen(result) == 5 and fold(result, 'og') == g and fold(result, 'on') == nm, 'a named segment is emitted itself'
if len(segment) == 1:
    assert len(result) == 0 or lastlen(result) == 1, 'text after a terminator is unmapped'
''']
    loop = Loop(inv=inv, types={'record': Record(), 'result': SPEC, 'regen_next': Bool, 'g': Int, 's': Int, 'l': Int, 'c': Int, 'nm': Int},
                ghost_step=ghost_step, index='_k')
    c = Contract(
        MODULE + ':normalize_mapping_line', params={'mapping_line': Line(), 'previous_source_column': Int},
        ensures=["len(mapping_line) == 0 or result[1] == c + previous_source_column - fold(result[0], 'oc')",
                 "len(mapping_line) == 0 or (fold(result[0], 'os') == s and fold(result[0], 'ol') == l and fold(result[0], 'on') == nm)",
                 "len(mapping_line) != 0 or (len(result[0]) == 0 and result[1] == previous_source_column)"],
        loops=[loop], env=env, hints={'ghost_init': ['g = 0', 's = 0', 'l = 0', 'c = 0', 'nm = 0']})
    return [c] + build_mappings(module)


def build_mappings(module):
    """normalize_mappings: the lines are normalised one by one, in order, each started with the carry the previous one
    returned (the first with `column`); the result has one entry per line: what normalize_mapping_line returned for it."""
    from vf.pyvc.sym import SOpaque
    LINE_T = Opaque('MappingLine')
    IN = z3.Function('input_line', z3.IntSort(), LINE_T.sort())
    rec = {}

    def reset():
        rec.clear()
        rec['log'] = []

    class Lines(object):
        def make(self, name):
            return PAbsSeq(name, kinds=(1,), width=1, elem=lambda i, kind: SOpaque(IN(i), LINE_T))

        def __repr__(self):
            return 'Lines'

    def nml(e, a, k):
        out = SOpaque(z3.FreshConst(LINE_T.sort(), 'normalised_line'), LINE_T)
        carry = SInt(z3.FreshConst(z3.IntSort(), 'carry'))
        rec['log'].append((list(a), dict(k), out, carry))
        return (out, carry)

    def last_call(e):
        return rec['log'][-1] if rec['log'] else None
    env = {'__reset__': reset, 'normalize_mapping_line': PExt('normalize_mapping_line', nml),
           'calls': Helper(lambda e: len(rec['log'])),
           'line_arg': Helper(lambda e: last_call(e)[0][0]), 'carry_arg': Helper(lambda e: last_call(e)[0][1] if len(last_call(e)[0]) > 1 else last_call(e)[1].get('previous_source_column', 0)),
           'nargs': Helper(lambda e: len(last_call(e)[0]) + len(last_call(e)[1])),
           'returned_line': Helper(lambda e: last_call(e)[2]), 'returned_carry': Helper(lambda e: last_call(e)[3])}
    step = ['''
assert calls() == 1 and nargs() == 2, 'one normalisation per line'
assert line_arg() is ml, 'of this line'
assert carry_arg() == _c0, 'started with the carry of the line before (the given column for the first)'
assert result[-1] is returned_line(), 'its result is the entry for this line'
assert column == returned_carry(), 'and its carry is handed on'
''']
    cs = []
    for given in (True, False):
        params = {'mappings': Lines()}
        if given:
            params['column'] = Int
        # without a column the first line starts at 0 (a consumer of a fresh map is 0 columns behind)
        loop = Loop(inv=['len(result) == _k'] + ([] if given else ['implies(_k == 0, column == 0)']),
                    types={'result': FoldSpec(kinds=(), width=0, folds={}), 'column': Int, '_c0': Int},
                    ghost_begin=['_c0 = column'], ghost_step=step, index='_k')
        cs.append(Contract(MODULE + ':normalize_mappings', params=params, ensures=['len(result) == len(mappings)'], loops=[loop], env=env,
                           hints={'ghost_init': ['_c0 = 0']}, notes='column %s' % ('given' if given else 'defaulted')))
    return cs

"""Sidecar contracts for handlers/obfuscation.py (property C07).

What the renaming of one program is, is the composition of:
  Obfuscator.resolve          an occurrence prints what the scope it was registered in resolves its spelling to -- nothing else
  Scope.resolve               the first remapping on the chain self, parent, grandparent..., else the spelling itself
  Scope.build_remap_symbols   every locally declared symbol (and only those) is given the *next* generated name, none is
                              skipped or reused; the generator is built to avoid the reserved set; every child is built
  CatchScope.build_remap_symbols   likewise for the catch parameter
  Obfuscator.finalize         close the global scope, then build from a generator that skips the reserved keywords;
                              top-level names are remapped iff obfuscate_globals
Dict / set state is modelled by recording doubles (get / __setitem__ / __contains__ are externals with a ghost log); the
declared-set membership is an uninterpreted predicate.  The reserved set (Scope._reserved_symbols) and the symbol tables are
under contract in contracts/scopes.py, the marker handlers in contracts/obfuscator.py, the name generator in
contracts/namegen.py (names outside its skip set; pairwise distinctness by the model of itertools.product only)."""
import z3

from vf.pyvc.dsl import Contract, Loop, Const, OneOf, Helper, PExt, PObj, PList, Str, Int, Bool, SBool, SInt, SStr
from vf.pyvc.engine import PAbsSeq

MOD = 'calmjs.parse.handlers.obfuscation'


def build(mod):
    cs = []
    rec = {}

    def reset():
        rec.clear()
        rec['log'] = []

    def count(e, what):
        return len([x for x in rec['log'] if x[0] == what])

    def entry(what, i=0):
        xs = [x for x in rec['log'] if x[0] == what]
        return xs[i] if len(xs) > i else None

    def same(e, a, b):
        if a is b:
            return True
        if isinstance(a, (PObj, PList)) or isinstance(b, (PObj, PList)) or a is None or b is None:
            return False
        try:
            return e.compare(__import__('ast').Eq(), a, b)
        except Exception:
            return False
    base_env = {'__reset__': reset, 'count': Helper(count)}

    # ---- Obfuscator.resolve -------------------------------------------------------------------
    for registered in (True, False):
        class Obf(object):
            def __init__(self, registered=registered):
                self.registered = registered

            def make(self, name):
                o = PObj(mod.Obfuscator, name='self')
                scope = PObj(object, name='scope')

                def resolve(e, a, k):
                    rec['log'].append(('scope.resolve', a))
                    rec['resolved'] = Str.fresh('resolved')
                    return rec['resolved']
                scope.fields['resolve'] = PExt('Scope.resolve', resolve)
                ids = PObj(object, name='identifiers')

                def get(e, a, k):
                    rec['log'].append(('identifiers.get', a))
                    return scope if self.registered else None
                ids.fields['get'] = PExt('dict.get', get)
                o.fields['identifiers'] = ids
                return o

            def __repr__(self):
                return 'Obfuscator(node %sregistered)' % ('' if self.registered else 'not ')

        class NodeT(object):
            def make(self, name):
                n = PObj(object, name='node')
                n.fields['value'] = Str.fresh('node_value')
                return n
        env = dict(base_env, looked_up=Helper(lambda e, node: entry('identifiers.get') is not None and entry('identifiers.get')[1][0] is node),
                   resolved=Helper(lambda e: rec.get('resolved')),
                   resolved_arg=Helper(lambda e, v: entry('scope.resolve') is not None and same(e, entry('scope.resolve')[1][0], v)))
        ens = ['looked_up(node)']
        ens += ['result is resolved()', 'resolved_arg(node.value)', "count('scope.resolve') == 1"] if registered else \
               ['result == node.value', "count('scope.resolve') == 0"]
        cs.append(Contract(MOD + ':Obfuscator.resolve', params={'self': Obf(), 'dispatcher': Const(None), 'node': NodeT()},
                           ensures=ens, env=env, notes='node %sregistered' % ('' if registered else 'not ')))

    # ---- Scope.resolve ------------------------------------------------------------------------
    for depth in (1, 2, 3):
        for hit in list(range(depth)) + [None]:
            class Chain(object):
                def __init__(self, depth=depth, hit=hit):
                    self.depth, self.hit = depth, hit

                def make(self, name):
                    scopes = []
                    for i in range(self.depth):
                        sc = PObj(mod.Scope, name='scope%d' % i)
                        rm = PObj(object, name='remapped%d' % i)

                        def get(e, a, k, i=i):
                            rec['log'].append(('get%d' % i, a))
                            if self.hit == i:
                                rec['hit'] = Str.fresh('remapped_name')
                                e.assume(z3.Length(rec['hit'].t) > 0)      # generated names are not empty
                                return rec['hit']
                            return None
                        rm.fields['get'] = PExt('dict.get', get)
                        sc.fields['remapped_symbols'] = rm
                        scopes.append(sc)
                    for i, sc in enumerate(scopes):
                        sc.fields['parent'] = scopes[i + 1] if i + 1 < len(scopes) else None
                    return scopes[0]

                def __repr__(self):
                    return 'Chain(depth=%d, remapped at %s)' % (self.depth, self.hit)
            env = dict(base_env, hit=Helper(lambda e: rec.get('hit')),
                       asked=Helper(lambda e, i, v: entry('get%d' % i) is not None and same(e, entry('get%d' % i)[1][0], v)))
            if hit is None:
                ens = ['result == symbol'] + ['asked(%d, symbol)' % i for i in range(depth)]
            else:
                ens = ['result is hit()'] + ['asked(%d, symbol)' % i for i in range(hit + 1)] + ["count('get%d') == 0" % i for i in range(hit + 1, depth)]
            cs.append(Contract(MOD + ':Scope.resolve', params={'self': Chain(), 'symbol': Str}, ensures=ens, env=env,
                               notes='chain of %d, remapped at %s' % (depth, hit)))

    # ---- Scope.build_remap_symbols ------------------------------------------------------------
    DECL = z3.Function('declared', z3.StringSort(), z3.BoolSort())

    def scope_model(cls, nchildren, catch=False):
        sc = PObj(cls, name='self')
        children = []
        for i in range(nchildren):
            ch = PObj(object, name='child%d' % i)

            def build(e, a, k, i=i):
                rec['log'].append(('child%d.build' % i, a, dict(k)))
            ch.fields['build_remap_symbols'] = PExt('child.build_remap_symbols', build)
            children.append(ch)
        sc.fields['children'] = PList(children)
        rm = PObj(object, name='remapped_symbols')

        def setitem(e, a, k):
            rec['log'].append(('store', a))
        rm.fields['__setitem__'] = PExt('dict.__setitem__', setitem)
        sc.fields['remapped_symbols'] = rm
        rec['reserved'] = PObj(object, name='reserved_symbols')
        sc.fields['_reserved_symbols'] = rec['reserved']
        decl = PObj(object, name='local_declared_symbols')
        decl.fields['__contains__'] = PExt('set.__contains__', lambda e, a, k: SBool(DECL(a[0].t)))
        sc.fields['local_declared_symbols'] = decl
        refs = PObj(object, name='referenced_symbols')
        rec['items'] = PObj(object, name='items')
        refs.fields['items'] = PExt('dict.items', lambda e, a, k: rec['items'])
        sc.fields['referenced_symbols'] = refs
        if catch:
            sc.fields['catch_symbol'] = Str.fresh('catch_symbol')
        return sc

    def generator_model():
        ng = PObj(object, name='name_generator')

        def call(e, a, k):
            rec['log'].append(('generator', a, dict(k)))
            rep = PObj(object, name='replacement')

            def nxt(e2, a2, k2):
                v = Str.fresh('generated%d' % count(e2, 'next'))
                rec['log'].append(('next', v))
                return v
            rep.fields['__next__'] = PExt('NameGenerator.__next__', nxt)
            return rep
        ng.fields['__call__'] = PExt('NameGenerator.__call__', call)
        return ng

    def sorted_model(e, a, k):
        rec['log'].append(('sorted', a, dict(k)))
        return PObj(object, name='sorted_items')

    def reversed_model(e, a, k):
        rec['log'].append(('reversed', a))
        SYM = z3.Function('item_symbol', z3.IntSort(), z3.StringSort())
        CNT = z3.Function('item_count', z3.IntSort(), z3.IntSort())
        return PAbsSeq('items', kinds=(2,), width=2, elem=lambda i, kind: (SStr(SYM(i)), SInt(CNT(i))))

    def child_ok(e, i, gen):
        c = entry('child%d.build' % i)
        if c is None or count(e, 'child%d.build' % i) != 1 or not c[1] or c[1][0] is not gen:
            return False
        flag = c[1][1] if len(c[1]) > 1 else c[2].get('children_only', 'default (children only)')
        return flag is False        # the child itself must be renamed too: children_only=False, given explicitly
    def foreign_generator(e, a, k):
        # the module's own generator class used instead of the generator handed in (which carries the reserved words the caller
        # configured): its names are logged under another label, so the clauses about 'generator' / 'next' cannot be met with them
        rec['log'].append(('foreign generator', a, dict(k)))
        rep = PObj(object, name='foreign_replacement')
        rep.fields['__next__'] = PExt('NameGenerator.__next__ (foreign)', lambda e2, a2, k2: Str.fresh('foreign_name'))
        rep.fields['__call__'] = PExt('NameGenerator.__call__ (foreign)', lambda e2, a2, k2: rep)
        return rep
    benv = dict(base_env, NameGenerator=PExt('NameGenerator (the class, not the argument)', foreign_generator), itemgetter=PExt('operator.itemgetter', lambda e, a, k: ('itemgetter',) + tuple(a)), sorted=PExt('sorted', sorted_model), reversed=PExt('reversed', reversed_model),
                declared=Helper(lambda e, s: SBool(DECL(s.t))), child_ok=Helper(child_ok),
                skip_is_reserved=Helper(lambda e: entry('generator') is not None and entry('generator')[2].get('skip') is rec['reserved']),
                stored_key=Helper(lambda e: entry('store')[1][0] if entry('store') else ('nothing stored',)), stored_val=Helper(lambda e: entry('store')[1][1] if entry('store') else ('nothing stored',)),
                same_obj=Helper(lambda e, a, b: a is b),
                generated=Helper(lambda e: entry('next')[1] if entry('next') else ('nothing generated by the generator handed in',)),
                sorted_items=Helper(lambda e: entry('sorted') is not None and entry('sorted')[1][0] is rec['items'] and entry('sorted')[2].get('key') == ('itemgetter', 1, 0)))
    for nchildren in (0, 2):
        class ScopeT(object):
            def __init__(self, n=nchildren):
                self.n = n

            def make(self, name):
                return scope_model(mod.Scope, self.n)

            def __repr__(self):
                return 'Scope(%d children)' % self.n

        class GenT(object):
            def make(self, name):
                return generator_model()
        step = ['''
assert count('next') == count('store') and count('next') <= 1, 'one generated name per stored symbol'
assert declared(symbol) == (count('next') == 1), 'exactly the locally declared symbols are renamed, none is skipped'
if count('store') == 1:
    assert same_obj(stored_key(), symbol) and same_obj(stored_val(), generated()), 'the symbol is mapped to the name just generated'
''']
        class Keep(object):
            """the dict / set doubles keep their state in the ghost log; nothing else of self changes in the loop"""
            def havoc_obj(self, eng, obj, tag):
                pass
        loop = Loop(inv=['True'], types={'symbol': Str, 'c': Int, 'self': Keep()}, ghost_step=step)
        ens = ["count('generator') == 1", 'skip_is_reserved()', 'sorted_items()'] + ['child_ok(%d, name_generator)' % i for i in range(nchildren)]
        cs.append(Contract(MOD + ':Scope.build_remap_symbols', params={'self': ScopeT(), 'name_generator': GenT(), 'children_only': Const(False)},
                           ensures=ens, loops=[loop], env=benv, notes='this scope and %d children' % nchildren))
        cs.append(Contract(MOD + ':Scope.build_remap_symbols', params={'self': ScopeT(), 'name_generator': GenT(), 'children_only': Const(True)},
                           ensures=["count('generator') == 0", "count('store') == 0", "count('next') == 0"] + ['child_ok(%d, name_generator)' % i for i in range(nchildren)],
                           env=benv, notes='children only, %d children' % nchildren))

        class CatchT(object):
            def __init__(self, n=nchildren):
                self.n = n

            def make(self, name):
                return scope_model(mod.CatchScope, self.n, catch=True)

            def __repr__(self):
                return 'CatchScope(%d children)' % self.n
        cs.append(Contract(MOD + ':CatchScope.build_remap_symbols', params={'self': CatchT(), 'name_generator': GenT(), 'children_only': Const(None)},
                           ensures=["count('generator') == 1", 'skip_is_reserved()', "count('next') == 1", "count('store') == 1",
                                    'same_obj(stored_key(), self.catch_symbol)', 'same_obj(stored_val(), generated())'] + ['child_ok(%d, name_generator)' % i for i in range(nchildren)],
                           env=benv, notes='catch scope, %d children' % nchildren))

    # ---- Obfuscator.finalize ------------------------------------------------------------------
    for og in (True, False):
        class ObfF(object):
            def __init__(self, og=og):
                self.og = og

            def make(self, name):
                o = PObj(mod.Obfuscator, name='self')
                gs = PObj(object, name='global_scope')
                gs.fields['close'] = PExt('Scope.close', lambda e, a, k: rec['log'].append(('close', a)))
                gs.fields['build_remap_symbols'] = PExt('Scope.build_remap_symbols', lambda e, a, k: rec['log'].append(('build', a, dict(k))))
                rec['kw'] = PObj(object, name='reserved_keywords')
                o.fields.update(global_scope=gs, obfuscate_globals=self.og, reserved_keywords=rec['kw'])
                return o

            def __repr__(self):
                return 'Obfuscator(obfuscate_globals=%s)' % self.og

        def ngen(e, a, k):
            rec['log'].append(('NameGenerator', a, dict(k)))
            rec['ng'] = PObj(object, name='name_generator')
            return rec['ng']
        fenv = dict(base_env, NameGenerator=PExt('NameGenerator', ngen),
                    order=Helper(lambda e: [x[0] for x in rec['log']]),
                    closed_before_build=Helper(lambda e: [x[0] for x in rec['log'] if x[0] in ('close', 'build')] == ['close', 'build']),
                    skip_kw=Helper(lambda e: entry('NameGenerator')[2].get('skip') is rec['kw']),
                    build_args=Helper(lambda e, og: entry('build')[1][0] is rec['ng'] and entry('build')[2].get('children_only') is (not og)))
        cs.append(Contract(MOD + ':Obfuscator.finalize', params={'self': ObfF()},
                           ensures=["sorted(order()) == ['NameGenerator', 'build', 'close']", 'closed_before_build()', 'skip_kw()', 'build_args(%s)' % og], env=fenv,
                           notes='obfuscate_globals=%s' % og))
    return cs

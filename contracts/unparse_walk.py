"""Sidecar contract for the top-level loop of unparsers/walker.py:walk (the inner generator `walk`), relied on by C01, C02, C08
and C20: no chunk the rule walk produces is dropped, duplicated or reordered, and layout markers are resolved exactly between
the two text chunks they stand between.

Spec.  Chunks are values of an uninterpreted sort; C is the sequence the inner `_walk` produces (any length); layout(x) says
whether x is a LayoutChunk.  `process_layouts(buffer, before, after)` is the uninterpreted sequence-valued function PLAY (its
own behaviour is exercised by the per-production obligations O-depth / O-print / O-sep).  Over prefixes of C:
    BUF(p ++ [x])  = BUF(p) ++ [x]   if layout(x)  else  []              -- markers pending since the last text chunk
    LAST(p ++ [x]) = LAST(p)         if layout(x)  else  x               -- the last text chunk (NONE before the first)
    OUT(p ++ [x])  = OUT(p)          if layout(x)  else  OUT(p) ++ PLAY(BUF(p), LAST(p), x) ++ [x]
    walk yields  OUT(C) ++ PLAY(BUF(C), LAST(C), NONE)     with layout handlers,
                 the non-layout chunks of C in order        without (OUT with PLAY = empty).
The defining equations are revealed at the instances used (as for contracts/walkers.py)."""
import z3

from vf.pyvc.dsl import Contract, Loop, Opaque, Const, Helper, SBool, SSeq, PList, Seq, ListOf, PExt, PObj
from vf.pyvc.engine import PGen, PFunc
from vf.pyvc.sym import SOpaque

MODULE = 'calmjs.parse.unparsers.walker'
CHUNK = Opaque('Chunk')


def build(module):
    CS = CHUNK.sort()
    SEQ = z3.SeqSort(CS)
    layout = z3.Function('is_layout_chunk', CS, z3.BoolSort())
    BUF = z3.Function('pending', SEQ, SEQ)
    LAST = z3.Function('last_text', SEQ, CS)
    OUT = z3.Function('out', SEQ, SEQ)
    PLAY = z3.Function('process_layouts', SEQ, CS, CS, SEQ)
    NONE = z3.Const('no_chunk', CS)
    C = z3.Const('walked_chunks', SEQ)
    empty = z3.Empty(SEQ)
    rec = {}
    out_cs = []

    def reset():
        rec.clear()

    def seq_t(x):
        if isinstance(x, PList):
            x = x.val
        if isinstance(x, PGen):
            x = x.items
        if isinstance(x, SSeq):
            return x.t
        if isinstance(x, list) and not x:
            return empty
        if isinstance(x, list):
            return z3.Concat(*[z3.Unit(e.t) for e in x]) if len(x) > 1 else z3.Unit(x[0].t)
        raise TypeError(x)

    def chunk_t(x):
        return NONE if x is None else x.t

    def wrap(t):
        return PList(SSeq(t, CHUNK))

    def kt(k):
        return k.t if hasattr(k, 't') else z3.IntVal(k)

    def prefix_t(k):
        return z3.Extract(C, z3.IntVal(0), kt(k))

    for has_layout in (True, False):
        play = (lambda b, l, x: PLAY(b, l, x)) if has_layout else (lambda b, l, x: empty)

        def step_eq(e, k, play=play):
            """the defining equations at prefix k -> k+1"""
            p, x = prefix_t(k), C[kt(k)]
            p1 = z3.Concat(p, z3.Unit(x))
            return SBool(z3.And(
                BUF(p1) == z3.If(layout(x), z3.Concat(BUF(p), z3.Unit(x)), empty),
                LAST(p1) == z3.If(layout(x), LAST(p), x),
                OUT(p1) == z3.If(layout(x), OUT(p), z3.Concat(OUT(p), play(BUF(p), LAST(p), x), z3.Unit(x)))))

        def walk_model(e, a, k):
            rec['walk_args'] = list(a)
            return PGen(SSeq(C, CHUNK))

        def pl_model(e, a, k):
            rec.setdefault('pl_calls', []).append(list(a))
            return PGen(SSeq(PLAY(seq_t(a[0]), chunk_t(a[1]), chunk_t(a[2])), CHUNK))

        def isinstance_model(e, a, k):
            if isinstance(a[0], SOpaque) and a[1] is module.LayoutChunk:
                return SBool(layout(a[0].t))
            return e.builtin_isinstance(a[0], a[1])
        disp, node, defn = PObj(object, name='dispatcher'), PObj(object, name='node'), PObj(object, name='definition')
        env = {
            '__reset__': reset, '_walk': PExt('walk._walk', walk_model), 'process_layouts': PExt('walk.process_layouts', pl_model),
            'isinstance': PExt('isinstance', isinstance_model), 'has_layout': has_layout, 'dispatcher': disp, 'node': node, 'definition': defn,
            'walked_with': Helper(lambda e, disp=disp, node=node, defn=defn: rec.get('walk_args') is not None and len(rec['walk_args']) == 3 and rec['walk_args'][0] is disp and rec['walk_args'][1] is node and rec['walk_args'][2] is defn),
            'prefix': Helper(lambda e, k: wrap(prefix_t(k))), 'all_chunks': Helper(lambda e: wrap(C)),
            'out': Helper(lambda e, s: wrap(OUT(seq_t(s)))), 'pending': Helper(lambda e, s: wrap(BUF(seq_t(s)))),
            'last_text': Helper(lambda e, s: SOpaque(LAST(seq_t(s)), CHUNK)),
            'play': Helper(lambda e, b, l, x, play=play: wrap(play(seq_t(b), chunk_t(l), chunk_t(x)))),
            'cat': Helper(lambda e, a, b: wrap(z3.Concat(seq_t(a), seq_t(b)))),
            'same_chunk': Helper(lambda e, a, b: SBool(chunk_t(a) == chunk_t(b))),
            'is_none': Helper(lambda e, a: a is None),
            'step_eq': Helper(step_eq),
            'base_eq': Helper(lambda e: SBool(z3.And(BUF(empty) == empty, LAST(empty) == NONE, OUT(empty) == empty))),
            'prefix_step': Helper(lambda e, k: SBool(z3.Implies(
                z3.And(kt(k) >= 0, kt(k) < z3.Length(C)),
                z3.Extract(C, z3.IntVal(0), kt(k) + 1) == z3.Concat(z3.Extract(C, z3.IntVal(0), kt(k)), z3.Unit(C[kt(k)]))))),
            'prefix_all': Helper(lambda e: SBool(z3.And(z3.Extract(C, z3.IntVal(0), z3.Length(C)) == C, z3.Extract(C, z3.IntVal(0), z3.IntVal(0)) == empty))),
            'prefix_of': Helper(lambda e, s, j: wrap(z3.Extract(seq_t(s), z3.IntVal(0), kt(j)))),
            'seq_prefix_step': Helper(lambda e, s, j: SBool(z3.Implies(
                z3.And(kt(j) >= 0, kt(j) < z3.Length(seq_t(s))),
                z3.Extract(seq_t(s), z3.IntVal(0), kt(j) + 1) == z3.Concat(z3.Extract(seq_t(s), z3.IntVal(0), kt(j)), z3.Unit(seq_t(s)[kt(j)]))))),
            'seq_prefix_all': Helper(lambda e, s: SBool(z3.And(z3.Extract(seq_t(s), z3.IntVal(0), z3.Length(seq_t(s))) == seq_t(s),
                                                             z3.Extract(seq_t(s), z3.IntVal(0), z3.IntVal(0)) == empty))),
        }
        main_inv = ['_out == out(prefix(k))', 'layout_rule_chunks == pending(prefix(k))',
                    '(k == 0 and last_chunk is None) or (last_chunk is not None)', 'same_chunk(last_chunk, last_text(prefix(k)))']
        loops = [Loop(index='k', inv=main_inv, types={'layout_rule_chunks': ListOf(CHUNK), 'last_chunk': CHUNK})]
        if has_layout:
            loops += [Loop(index='j', inv=['_out == cat(out0, prefix_of(_iter1, j))'], ghost_pre=['out0 = _out'], types={'out0': Seq(CHUNK)}),
                      Loop(index='j', inv=['_out == cat(out1, prefix_of(_iter2, j))'], ghost_pre=['out1 = _out'], types={'out1': Seq(CHUNK)})]
        ens = ['walked_with()',
               'result == cat(out(all_chunks()), play(pending(all_chunks()), last_text(all_chunks()), None))']
        uses = {'entry': ['base_eq()', 'prefix_all()'], 'loop0.preserve': ['step_eq(k - 1)', 'prefix_step(k - 1)'], 'loop0.exit': ['prefix_all()'],
                'loop1.preserve': ['seq_prefix_step(_iter1, j - 1)'], 'loop1.exit': ['seq_prefix_all(_iter1)'], 'loop1.entry': ['seq_prefix_all(_iter1)'],
                'loop2.preserve': ['seq_prefix_step(_iter2, j - 1)'], 'loop2.exit': ['seq_prefix_all(_iter2)'], 'loop2.entry': ['seq_prefix_all(_iter2)'],
                'post': ['prefix_all()']}
        yield_c = Contract(MODULE + ':walk.walk', params={}, yields=CHUNK, ensures=ens, loops=loops, uses=uses, env=env,
                           notes='with layout handlers' if has_layout else 'without layout handlers')
        out_cs.append(yield_c)
    return out_cs + build_inner(module)


def build_inner(module):
    """walk._walk, the recursive rule walker.  A value that is not a Node is handed to the dispatcher's token handler together
    with the innermost node and the source path stack, and its fragments are yielded as they come.  For a Node with a definition
    of n rules (n <= 3 here; the rules are doubles whose output is an arbitrary chunk sequence, or which raise before yielding):
    the chunks of rule 0, rule 1, ... are yielded in this order, each rule is called once with (_walk, dispatcher, node); a
    rule that raises contributes exactly what the dispatcher's error handler returns; the node is on top of the node stack --
    and its source path, if it has one, on top of the path stack -- while the rules run, and both stacks are as before afterwards."""
    import itertools
    from vf.pyvc.engine import PExc
    CS = CHUNK.sort()
    SEQ = z3.SeqSort(CS)
    RULEOUT = z3.Function('rule_output', z3.IntSort(), SEQ)
    ERR = z3.Function('error_chunk', z3.IntSort(), CS)
    TOKOUT = z3.Const('token_output', SEQ)
    empty = z3.Empty(SEQ)
    rec = {}
    cs = []

    def reset():
        rec.clear()
        rec['log'] = []

    def seq_t(x):
        if isinstance(x, PList):
            x = x.val
        if isinstance(x, PGen):
            x = x.items
        if isinstance(x, SSeq):
            return x.t
        if isinstance(x, list) and not x:
            return empty
        if isinstance(x, list):
            return z3.Concat(*[z3.Unit(e.t) for e in x]) if len(x) > 1 else z3.Unit(x[0].t)
        raise TypeError(x)

    def wrap(t):
        return PList(SSeq(t, CHUNK))

    def kt(k):
        return k.t if hasattr(k, 't') else z3.IntVal(k)
    seq_helpers = {
        'cat': Helper(lambda e, a, b: wrap(z3.Concat(seq_t(a), seq_t(b)))),
        'prefix_of': Helper(lambda e, s, j: wrap(z3.Extract(seq_t(s), z3.IntVal(0), kt(j)))),
        'seq_prefix_step': Helper(lambda e, s, j: SBool(z3.Implies(
            z3.And(kt(j) >= 0, kt(j) < z3.Length(seq_t(s))),
            z3.Extract(seq_t(s), z3.IntVal(0), kt(j) + 1) == z3.Concat(z3.Extract(seq_t(s), z3.IntVal(0), kt(j)), z3.Unit(seq_t(s)[kt(j)]))))),
        'seq_prefix_all': Helper(lambda e, s: SBool(z3.And(z3.Extract(seq_t(s), z3.IntVal(0), z3.Length(seq_t(s))) == seq_t(s),
                                                         z3.Extract(seq_t(s), z3.IntVal(0), z3.IntVal(0)) == empty))),
    }
    outer_node = PObj(object, name='outer_node')
    SELF_WALK = PObj(object, name='_walk')       # the walker hands itself to the rules (they recurse through it)

    def make_env(nodes, paths, disp):
        env = dict(seq_helpers)
        nodes0, paths0 = list(nodes.val), list(paths.val)

        def reset_all():
            # the two stacks are closure state of the enclosing walk(): every path starts from the same contents
            reset()
            nodes.val = list(nodes0)
            paths.val = list(paths0)
        env.update({'__reset__': reset_all, '_walk': SELF_WALK, 'nodes': nodes, 'sourcepath_stack': paths, 'Node': module.Node,
                    'log': Helper(lambda e: [x[0] for x in rec['log']])})
        return env

    # ---- a value that is not a Node ----------------------------------------------------------------
    def token_model(e, a, k):
        rec['log'].append(('token', list(a)))
        return PGen(SSeq(TOKOUT, CHUNK))
    disp = PObj(object, name='dispatcher')
    disp.fields['token'] = PExt('Dispatcher.token', token_model)
    nodes = PList([PObj(object, name='root'), outer_node])
    paths = PList([NotImplemented, 'a.js'])
    tok = PObj(object, name='token_rule')
    env = make_env(nodes, paths, disp)
    env.update({'token_args_ok': Helper(lambda e, value, tok=tok, paths=paths: len(rec['log']) == 1 and len(rec['log'][0][1]) == 4 and rec['log'][0][1][0] is tok and rec['log'][0][1][1] is outer_node
                                        and (rec['log'][0][1][2] is value or rec['log'][0][1][2] == value) and rec['log'][0][1][3] is paths),
                'token_output': Helper(lambda e: wrap(TOKOUT))})
    for value in ('text', 3, None):
        cs.append(Contract(MODULE + ':walk._walk', params={'dispatcher': Const(disp), 'node': Const(value), 'definition': Const(None), 'token': Const(tok)},
                           yields=CHUNK, ensures=['token_args_ok(node)', 'result == token_output()', 'len(nodes) == 2 and len(sourcepath_stack) == 2'],
                           loops=[Loop(index='j', inv=['_out == cat(out0, prefix_of(_iter0, j))'], ghost_pre=['out0 = _out'], types={'out0': Seq(CHUNK)})],
                           uses={'loop0.preserve': ['seq_prefix_step(_iter0, j - 1)'], 'loop0.exit': ['seq_prefix_all(_iter0)'], 'loop0.entry': ['seq_prefix_all(_iter0)']},
                           env=env, notes='value %r is not a Node' % (value,), hints={'loops_by_line': True}))
    # ---- a Node -----------------------------------------------------------------------------------
    class Boom(Exception):
        pass
    for n, given, path in itertools.product((0, 1, 3), (True, False), (None, 'b.js')):
        disp = PObj(object, name='dispatcher')
        nodes = PList([PObj(object, name='root'), outer_node])
        paths = PList([NotImplemented, 'a.js'])
        the_node = PObj(module.Node, name='node')
        the_node.fields['sourcepath'] = path
        rules = []

        def make_rule(i, nodes=nodes, paths=paths):
            def effect(e, a, k):
                rec['log'].append(('rule%d' % i, list(a), dict(k), nodes.val[-1] if nodes.val else None, len(nodes.val), paths.val[-1], len(paths.val)))
                return PGen(SSeq(RULEOUT(z3.IntVal(i)), CHUNK))
            return PExt('rule%d' % i, effect, raises=(Boom,))
        rules = [make_rule(i) for i in range(n)]
        definition = PList(list(rules))

        def lookup(e, a, k, definition=definition):
            rec['log'].append(('lookup', list(a)))
            return definition

        def on_error(e, a, k, rules=rules):
            i = [j for j, r in enumerate(rules) if r is k.get('rule')]
            rec['log'].append(('error%d' % (i[0] if i else -1), list(a), dict(k)))
            return SOpaque(ERR(z3.IntVal(i[0] if i else -1)), CHUNK)
        disp.fields['get_optimized_definition'] = PExt('Dispatcher.get_optimized_definition', lookup)
        disp.fields['error_handler'] = PExt('Dispatcher.error_handler', on_error)

        def expected(e, n=n):
            parts = []
            for i in range(n):
                if any(x[0] == 'rule%d' % i for x in rec['log']):
                    parts.append(RULEOUT(z3.IntVal(i)))
                else:
                    parts.append(z3.Unit(ERR(z3.IntVal(i))))
            if not parts:
                return wrap(empty)
            return wrap(z3.Concat(*parts) if len(parts) > 1 else parts[0])

        def order_ok(e, n=n, given=given):
            names = [x[0] for x in rec['log']]
            want_prefix = [] if given else ['lookup']
            if names[:len(want_prefix)] != want_prefix:
                return False
            rest = names[len(want_prefix):]
            return len(rest) == n and all(rest[i] in ('rule%d' % i, 'error%d' % i) for i in range(n))

        def calls_ok(e, n=n, the_node=the_node, disp=disp, path=path):
            for x in rec['log']:
                if x[0].startswith('rule'):
                    a = x[1]
                    if len(a) != 3 or a[0] is not SELF_WALK or a[1] is not disp or a[2] is not the_node or x[2]:
                        return False
                    # while a rule runs: the node is the innermost node, its source path (if any) the innermost path
                    if x[3] is not the_node or x[4] != 3 or x[5] != (path or 'a.js') or x[6] != (3 if path else 2):
                        return False
                if x[0].startswith('error'):
                    if len(x[1]) != 1 or not isinstance(x[1][0], PExc) or x[2].get('node') is not the_node or set(x[2]) != {'rule', 'node'}:
                        return False
                if x[0] == 'lookup' and (len(x[1]) != 1 or x[1][0] is not the_node):
                    return False
            return True
        env = make_env(nodes, paths, disp)
        env.update({'expected': Helper(expected), 'order_ok': Helper(order_ok), 'calls_ok': Helper(calls_ok), 'outer': Helper(lambda e: outer_node)})
        cs.append(Contract(MODULE + ':walk._walk', params={'dispatcher': Const(disp), 'node': Const(the_node), 'definition': Const(definition if given else None)},
                           yields=CHUNK, ensures=['order_ok()', 'calls_ok()', 'result == expected()',
                                                  'len(nodes) == 2 and nodes[-1] is outer()', "len(sourcepath_stack) == 2 and sourcepath_stack[-1] == 'a.js'"],
                           loops=[Loop(index='j', inv=['True']), Loop(index='i', inv=['True']),      # (token loop: not reached; rule loop: unrolled)
                                  Loop(index='j', inv=['_out == cat(out0, prefix_of(_iter2, j))'], ghost_pre=['out0 = _out'], types={'out0': Seq(CHUNK)})],
                           uses={'loop2.preserve': ['seq_prefix_step(_iter2, j - 1)'], 'loop2.exit': ['seq_prefix_all(_iter2)'], 'loop2.entry': ['seq_prefix_all(_iter2)']},
                           env=env, hints={'loops_may_be_unreachable': n == 0},
                           notes='Node with %d rules, definition %s, %s' % (n, 'given' if given else 'looked up', 'own source path' if path else 'no source path')))
    return cs

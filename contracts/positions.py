"""Sidecar contracts for the position primitives of asttypes.Node (C11, C08): what every setpos / token-handler call rests on.

    Node.findpos(p, idx)   = (p.lexpos(idx), p.lineno(idx), column), the column being the lexer's lookup_colno(line, offset) of exactly
                             these two numbers when the line is positive and the lexer offers the helper, else the "no column" 0;
                             for ALL integers ply may answer; each of ply's accessors is asked once, for exactly idx
    Node.getpos(s, idx)    = the idx-th recorded position of the text s; the "implied" (0, 0, 0) when fewer are recorded or the text is
                             unknown; (None, None, None) for a node without a token map -- for ALL idx >= 0 and record counts 0..3
The per-production obligations O-anchor / O-tokmap (E2) run the real setpos on tagged slots; these contracts carry the two
primitives it is built from to all integers."""
from vf.pyvc.dsl import Contract, Const, Helper, PExt, PObj, PList, Str, Int

MODULE = 'calmjs.parse.asttypes'


def build(at):
    cs = []
    rec = {}

    def reset():
        rec.clear()
        rec.update(calls=[], wrong=0)
    # ---- findpos
    for helper in ('present', 'absent', 'not callable'):
        class Prod(object):
            def __init__(self, helper=helper):
                self.helper = helper

            def make(self, name):
                p = PObj(object, name='production')
                rec['lexpos'], rec['lineno'], rec['colno'] = Int.fresh('ply_lexpos'), Int.fresh('ply_lineno'), Int.fresh('looked_up_colno')

                def lexpos(e, a, k):
                    rec['calls'].append(('lexpos', a[0]))
                    return rec['lexpos']

                def lineno(e, a, k):
                    rec['calls'].append(('lineno', a[0]))
                    return rec['lineno']
                p.fields['lexpos'] = PExt('YaccProduction.lexpos', lexpos)
                p.fields['lineno'] = PExt('YaccProduction.lineno', lineno)
                lx = PObj(object, name='lexer')

                def lookup(e, a, k):
                    if len(a) == 2 and a[0] is rec['lineno'] and a[1] is rec['lexpos'] and not k:
                        rec['calls'].append(('lookup_colno',))
                    else:
                        rec['wrong'] += 1
                    return rec['colno']
                if self.helper == 'present':
                    lx.fields['lookup_colno'] = PExt('Lexer.lookup_colno', lookup)
                elif self.helper == 'not callable':
                    lx.fields['lookup_colno'] = None
                p.fields['lexer'] = lx
                return p
        env = {'__reset__': reset,
               'ply_lexpos': Helper(lambda e: rec['lexpos']), 'ply_lineno': Helper(lambda e: rec['lineno']), 'looked_up': Helper(lambda e: rec['colno']),
               'asked_for_idx_only': Helper(lambda e, idx: all(c[0] == 'lookup_colno' or c[1] is idx for c in rec['calls'])),
               'accessor_calls': Helper(lambda e, name: len([c for c in rec['calls'] if c[0] == name])),
               'no_wrong_calls': Helper(lambda e: rec['wrong'] == 0)}
        ens = ['result[0] == ply_lexpos()', 'result[1] == ply_lineno()', 'asked_for_idx_only(idx)', "accessor_calls('lexpos') == 1", "accessor_calls('lineno') == 1",
               'no_wrong_calls()']
        if helper == 'present':
            ens += ['implies(ply_lineno() > 0, result[2] == looked_up())', 'implies(ply_lineno() <= 0, result[2] == 0)',
                    "implies(ply_lineno() <= 0, accessor_calls('lookup_colno') == 0)"]
        else:
            ens += ['result[2] == 0']
        cs.append(Contract(MODULE + ':Node.findpos', params={'self': Const(PObj(at.Node, name='node')), 'p': Prod(), 'idx': Int}, ensures=ens, env=env,
                           notes='lexer helper %s' % helper))
    # ---- getpos
    for n in (0, 1, 2, 3):
        class NodeT(object):
            def __init__(self, n=n):
                self.n = n

            def make(self, name):
                node = PObj(at.Node, name='node')
                rec['positions'] = [(Int.fresh('lexpos%d' % i), Int.fresh('lineno%d' % i), Int.fresh('colno%d' % i)) for i in range(self.n)]
                from vf.pyvc.engine import PDict
                node.fields['_token_map'] = PDict({'tok': PList(list(rec['positions'])), 'other': PList([(Int.fresh('o1'), Int.fresh('o2'), Int.fresh('o3'))])})
                return node
        env = {'__reset__': reset, 'pos': Helper(lambda e, i, j: rec['positions'][i][j])}
        ens = []
        for i in range(n):
            ens.append('implies(idx == %d, result[0] == pos(%d, 0) and result[1] == pos(%d, 1) and result[2] == pos(%d, 2))' % (i, i, i, i))
        ens.append('implies(idx >= %d, result == (0, 0, 0))' % n)
        cs.append(Contract(MODULE + ':Node.getpos', params={'self': NodeT(), 's': Const('tok'), 'idx': Int}, requires=['idx >= 0'], ensures=ens, env=env,
                           notes='%d recorded position(s) of the text' % n))
    cs.append(Contract(MODULE + ':Node.getpos', params={'self': NodeT(2), 's': Const('unknown text'), 'idx': Int}, requires=['idx >= 0'],
                       ensures=['result == (0, 0, 0)'], env={'__reset__': reset}, notes='a text that was not recorded'))
    return cs

"""Sidecar contracts for the position arithmetic and keyword classification of lexers/es5.py (C06).

Spec (ECMA-262 7.3 / spec/es5_lines.py): the column of an offset is  offset - start_of_its_line + 1;
`newline_idx` is the list of line-start offsets seen so far (index k = start of line k+1)."""
import z3

from vf.pyvc.dsl import Contract, Obj, Int, Str, ListOf, Const, OneOf, PObj, PExt, Helper, Bool

MODULE = 'calmjs.parse.lexers.es5'


def build(module):
    Lexer = module.Lexer
    LEX = Obj(Lexer, {'newline_idx': ListOf(Int)})
    TOK = Obj(object, {'lexpos': Int, 'value': Str, 'type': Str})
    kw = dict(Lexer.keywords_dict)
    spec_type = "'ID'"
    # the keyword table, as a chain written from the spec side: exact match only
    cases = ' '.join("'%s' if token.value == '%s' else" % (v, k) for k, v in sorted(kw.items()))
    cs = [
        Contract(MODULE + ':Lexer._get_colno_lexpos', params={'self': LEX, 'lexpos': Int}, result=Int,
                 requires=['len(self.newline_idx) >= 1'],
                 ensures=['result == lexpos - self.newline_idx[len(self.newline_idx) - 1] + 1']),
        Contract(MODULE + ':Lexer._get_colno', params={'self': LEX, 'token': TOK}, result=Int,
                 requires=['len(self.newline_idx) >= 1'],
                 ensures=['result == token.lexpos - self.newline_idx[len(self.newline_idx) - 1] + 1']),
        Contract(MODULE + ':Lexer.lookup_colno', params={'self': LEX, 'lineno': Int, 'lexpos': Int}, result=Int,
                 requires=['lineno >= 1', 'lineno <= len(self.newline_idx)'],
                 ensures=['result == lexpos - self.newline_idx[lineno - 1] + 1']),
        Contract(MODULE + ':Lexer.t_ID', params={'self': Obj(Lexer, {}), 'token': TOK},
                 ensures=['result is token', 'token.value == old(token.value)',
                          "token.type == (%s 'ID')" % cases],
                 modifies=['token.type']),
    ]
    cs += token_bookkeeping(module)
    cs += newline_bookkeeping(module)
    return cs, [], {}


def lt_free_types(module):
    """token types whose pattern provably matches no text containing a line terminator (vf.charclass.pattern_may_match
    on the real rule patterns; keyword types share the identifier rule)"""
    import re
    from vf import charclass as cc
    Lexer = module.Lexer
    LT = '\n\r\u2028\u2029'
    rules = {}
    for name in dir(Lexer):
        if not name.startswith('t_') or name.endswith(('_ignore', '_error')):
            continue
        v = getattr(Lexer, name)
        pat = v if isinstance(v, str) else getattr(v, 'regex', None) or getattr(v, '__doc__', None)
        if pat:
            rules.setdefault(name.split('_')[-1] if name.split('_')[1] in ('regex',) else name[2:], []).append(pat)
    free = set()
    lt_free_types.produced = set()      # the types ply's token() can return: those with a rule
    for t in Lexer.tokens:
        pats = rules.get(t)
        if pats is None and t in Lexer.keywords_dict.values():
            pats = rules.get('ID')
        if pats:
            lt_free_types.produced.add(t)
        if pats and not any(cc.pattern_may_match(p_, re.VERBOSE, LT) for p_ in pats):
            free.add(t)
    return free


def token_bookkeeping(module):
    """Lexer.get_lexer_token: every token ply returns gets its column from the line-start table as it stands
    *before* the token, and then the table is advanced over the line terminators inside the token -- unless the
    token's type is one whose pattern provably cannot match a line terminator."""
    import z3
    from vf.pyvc.dsl import SBool
    cs = []
    rec = {}
    free = sorted(lt_free_types(module))
    alltypes = sorted(lt_free_types.produced)
    for kind in ('token', 'end of input'):
        class LexerSelf(object):
            def __init__(self, kind=kind):
                self.kind = kind

            def make(self, name):
                rec.clear()
                rec['log'] = []
                o = PObj(module.Lexer, name='self')
                inner = PObj(object, name='plylexer')
                tok = None
                if self.kind == 'token':
                    tok = PObj(object, name='tok')
                    tok.fields.update(type=Str.fresh('tok_type'), value=Str.fresh('tok_value'), lexpos=Int.fresh('tok_lexpos'),
                                      lineno=Int.fresh('tok_lineno'))
                rec['tok'] = tok

                def ply_token(e, a, k):
                    # ply hands out the tokens one after the other: a second call gives the NEXT token, not this one again
                    rec['ply_calls'] = rec.get('ply_calls', 0) + 1
                    if rec['ply_calls'] == 1:
                        return tok
                    nxt = PObj(object, name='tok%d' % rec['ply_calls'])
                    nxt.fields.update(type=Str.fresh('next_type'), value=Str.fresh('next_value'), lexpos=Int.fresh('next_lexpos'),
                                      lineno=Int.fresh('next_lineno'))
                    return nxt
                inner.fields['token'] = PExt('ply.lex.Lexer.token', ply_token)
                # the two comment switches are arbitrary: what is handed out does not depend on them
                o.fields.update(with_comments=Bool.fresh('with_comments'), yield_comments=Bool.fresh('yield_comments'))

                def colno(e, a, k):
                    rec['log'].append(('colno', a[0]))
                    rec['col'] = Int.fresh('colno')
                    return rec['col']

                def upd(e, a, k):
                    rec['log'].append(('update', a[0]))
                o.fields.update(lexer=inner, _get_colno=PExt('Lexer._get_colno', colno), _update_newline_idx=PExt('Lexer._update_newline_idx', upd))
                return o

        def one_of(eng, ty, names):
            t = ty.t if hasattr(ty, 't') else z3.StringVal(ty)
            return SBool(z3.Or(*[t == z3.StringVal(n) for n in names]))
        if kind == 'token':
            req = ['declared_type(the_token().type)']
            ens = ['result is the_token()', 'ply_calls() == 1', 'call(0, "colno")', 'result.colno is column()', 'calls() <= 2',
                   'call(1, "update") or (calls() == 1 and lt_free(result.type))']
        else:
            req = []
            ens = ['result is None', 'calls() == 0', 'ply_calls() == 1']
        cs.append(Contract(
            MODULE + ':Lexer.get_lexer_token', params={'self': LexerSelf()}, requires=req, ensures=ens,
            env={'the_token': Helper(lambda e: rec['tok']), 'calls': Helper(lambda e: len(rec['log'])), 'ply_calls': Helper(lambda e: rec.get('ply_calls', 0)),
                 'call': Helper(lambda e, i, what: len(rec['log']) > i and rec['log'][i][0] == what and rec['log'][i][1] is rec['tok']),
                 'column': Helper(lambda e: rec.get('col')),
                 'lt_free': Helper(lambda e, ty: one_of(e, ty, free)), 'declared_type': Helper(lambda e, ty: one_of(e, ty, alltypes))},
            notes=kind))
    return cs


def newline_bookkeeping(module):
    """Lexer._update_newline_idx: for a token whose text contains N line terminator sequences, the line counter goes up by N
    and N offsets are appended to newline_idx: the k-th is the offset just after the k-th terminator sequence of the text
    (token.lexpos + lengths of everything up to and including it) -- the start of the next line, which is what the column
    arithmetic above subtracts.

    Models (assumed, stated in the evidence): `PATTERN.split(text)` with one capturing group returns text pieces and
    separators alternately, piece_0, sep_0, piece_1, ..., piece_N (the pattern itself -- exactly the ES5 line terminator
    sequences, CR LF as one -- is decided exhaustively by `regex.line_terminator_split` in C06);
    `zip(*[iter(xs)] * 2)` yields the consecutive pairs (xs[0], xs[1]), (xs[2], xs[3]), ... and drops an odd last element."""
    from vf.pyvc.dsl import Loop, PList, SStr, SInt
    from vf.pyvc.engine import PAbsSeq, FoldSpec
    Lexer = module.Lexer
    rec = {}
    PIECE = z3.Function('piece', z3.IntSort(), z3.StringSort())
    SEP = z3.Function('separator', z3.IntSort(), z3.StringSort())
    OFF = z3.Function('offset_after', z3.IntSort(), z3.IntSort())     # OFF(k) = total length of piece_0 sep_0 ... piece_k-1 sep_k-1

    def reset():
        rec.clear()

    def split_model(e, a, k):
        rec['text'] = a[0]
        rec['fragments'] = PObj(object, name='fragments')
        return rec['fragments']

    def iter_model(e, a, k):
        if a[0] is not rec.get('fragments'):
            raise Unsupported('iter() of something else than the split result')
        rec['iterator'] = PObj(object, name='iterator')
        return rec['iterator']

    def zip_model(e, a, k):
        if len(a) != 2 or a[0] is not rec.get('iterator') or a[1] is not rec.get('iterator'):
            raise Unsupported('zip() of something else than one iterator twice')
        e.assume(OFF(z3.IntVal(0)) == 0)
        return PAbsSeq('pairs', kinds=(2,), width=2, elem=lambda i, kind: (SStr(PIECE(i)), SStr(SEP(i))),
                       elem_facts=lambda el: [])
    pattern = PObj(object, name='PATT_LINE_TERMINATOR_SEQUENCE')
    pattern.fields['split'] = PExt('re.Pattern.split', split_model)

    def unfold(e, k):
        kt = k.t if hasattr(k, 't') else z3.IntVal(k)
        e.assume(OFF(kt + 1) == OFF(kt) + z3.Length(PIECE(kt)) + z3.Length(SEP(kt)))
        return True
    env = {'__reset__': reset, 'PATT_LINE_TERMINATOR_SEQUENCE': pattern, 'iter': PExt('iter', iter_model), 'zip': PExt('zip', zip_model),
           'off': Helper(lambda e, k: SInt(OFF(k.t if hasattr(k, 't') else z3.IntVal(k)))), 'unfold_off': Helper(unfold),
           'split_of': Helper(lambda e, text: rec.get('text') is text)}

    class LexerSelf(object):
        def make(self, name):
            o = PObj(Lexer, name='self')
            inner = PObj(object, name='lexer')
            inner.fields['lineno'] = Int.fresh('lineno')
            o.fields['lexer'] = inner
            o.fields['newline_idx'] = PList(FoldSpec(kinds=(), width=0, folds={}).fresh('newline_idx'))
            return o

        def havoc_obj(self, eng, obj, tag):
            obj.fields['lexer'].fields['lineno'] = Int.fresh('lineno_' + tag)
            obj.fields['newline_idx'].val = FoldSpec(kinds=(), width=0, folds={}).fresh('newline_idx_' + tag)

        def __repr__(self):
            return 'Lexer'
    from vf.pyvc.sym import Unsupported
    step = ['''
assert unfold_off(_k)
assert self.newline_idx[-1] == token.lexpos + off(_k + 1), 'the offset just after this line terminator sequence is recorded'
''']
    loop = Loop(inv=['lexpos == token.lexpos + off(_k)', 'self.lexer.lineno == _line0 + _k', 'len(self.newline_idx) == _n0 + _k'],
                types={'lexpos': Int, 'self': LexerSelf()}, ghost_step=step, index='_k')
    c = Contract(MODULE + ':Lexer._update_newline_idx', params={'self': LexerSelf(), 'token': Obj(object, {'lexpos': Int, 'value': Str})},
                 requires=['len(self.newline_idx) >= 0'],
                 ensures=['split_of(token.value)', 'self.lexer.lineno == _line0 + len(_iter0)', 'len(self.newline_idx) == _n0 + len(_iter0)',
                          'result is None', 'token.lexpos == old(token.lexpos)'],
                 loops=[loop], env=env, hints={'ghost_init': ['_line0 = self.lexer.lineno', '_n0 = len(self.newline_idx)']})
    return [c]

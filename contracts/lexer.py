"""Sidecar contracts for the position arithmetic and keyword classification of lexers/es5.py (C06).

Spec (ECMA-262 7.3 / spec/es5_lines.py): the column of an offset is  offset - start_of_its_line + 1;
`newline_idx` is the list of line-start offsets seen so far (index k = start of line k+1)."""
import z3

from vf.pyvc.dsl import Contract, Obj, Int, Str, ListOf, Const, OneOf

MODULE = 'calmjs.parse.lexers.es5'


def build(module):
    Lexer = module.Lexer
    LEX = Obj(Lexer, {'newline_idx': ListOf(Int)})
    TOK = Obj(object, {'lexpos': Int, 'value': Str, 'type': Str})
    kw = dict(Lexer.keywords_dict)
    spec_type = "'ID'"
    # the keyword table, as a chain written from the spec side: exact match only
    cases = ' '.join("'%s' if token.value == '%s' else" % (v, k) for k, v in sorted(kw.items()))
    cs = [
        Contract(MODULE + ':Lexer._get_colno_lexpos', params={'self': LEX, 'lexpos': Int}, result=Int,
                 requires=['len(self.newline_idx) >= 1'],
                 ensures=['result == lexpos - self.newline_idx[len(self.newline_idx) - 1] + 1']),
        Contract(MODULE + ':Lexer._get_colno', params={'self': LEX, 'token': TOK}, result=Int,
                 requires=['len(self.newline_idx) >= 1'],
                 ensures=['result == token.lexpos - self.newline_idx[len(self.newline_idx) - 1] + 1']),
        Contract(MODULE + ':Lexer.lookup_colno', params={'self': LEX, 'lineno': Int, 'lexpos': Int}, result=Int,
                 requires=['lineno >= 1', 'lineno <= len(self.newline_idx)'],
                 ensures=['result == lexpos - self.newline_idx[lineno - 1] + 1']),
        Contract(MODULE + ':Lexer.t_ID', params={'self': Obj(Lexer, {}), 'token': TOK},
                 ensures=['result is token', 'token.value == old(token.value)',
                          "token.type == (%s 'ID')" % cases],
                 modifies=['token.type']),
    ]
    return cs, [], {}

"""Sidecar contracts for the position arithmetic and keyword classification of lexers/es5.py (C06).

Spec (ECMA-262 7.3 / spec/es5_lines.py): the column of an offset is  offset - start_of_its_line + 1;
`newline_idx` is the list of line-start offsets seen so far (index k = start of line k+1)."""
import z3

from vf.pyvc.dsl import Contract, Obj, Int, Str, ListOf, Const, OneOf, PObj, PExt, Helper

MODULE = 'calmjs.parse.lexers.es5'


def build(module):
    Lexer = module.Lexer
    LEX = Obj(Lexer, {'newline_idx': ListOf(Int)})
    TOK = Obj(object, {'lexpos': Int, 'value': Str, 'type': Str})
    kw = dict(Lexer.keywords_dict)
    spec_type = "'ID'"
    # the keyword table, as a chain written from the spec side: exact match only
    cases = ' '.join("'%s' if token.value == '%s' else" % (v, k) for k, v in sorted(kw.items()))
    cs = [
        Contract(MODULE + ':Lexer._get_colno_lexpos', params={'self': LEX, 'lexpos': Int}, result=Int,
                 requires=['len(self.newline_idx) >= 1'],
                 ensures=['result == lexpos - self.newline_idx[len(self.newline_idx) - 1] + 1']),
        Contract(MODULE + ':Lexer._get_colno', params={'self': LEX, 'token': TOK}, result=Int,
                 requires=['len(self.newline_idx) >= 1'],
                 ensures=['result == token.lexpos - self.newline_idx[len(self.newline_idx) - 1] + 1']),
        Contract(MODULE + ':Lexer.lookup_colno', params={'self': LEX, 'lineno': Int, 'lexpos': Int}, result=Int,
                 requires=['lineno >= 1', 'lineno <= len(self.newline_idx)'],
                 ensures=['result == lexpos - self.newline_idx[lineno - 1] + 1']),
        Contract(MODULE + ':Lexer.t_ID', params={'self': Obj(Lexer, {}), 'token': TOK},
                 ensures=['result is token', 'token.value == old(token.value)',
                          "token.type == (%s 'ID')" % cases],
                 modifies=['token.type']),
    ]
    cs += token_bookkeeping(module)
    return cs, [], {}


def lt_free_types(module):
    """token types whose pattern provably matches no text containing a line terminator (vf.charclass.pattern_may_match
    on the real rule patterns; keyword types share the identifier rule)"""
    import re
    from vf import charclass as cc
    Lexer = module.Lexer
    LT = '\n\r\u2028\u2029'
    rules = {}
    for name in dir(Lexer):
        if not name.startswith('t_') or name.endswith(('_ignore', '_error')):
            continue
        v = getattr(Lexer, name)
        pat = v if isinstance(v, str) else getattr(v, 'regex', None) or getattr(v, '__doc__', None)
        if pat:
            rules.setdefault(name.split('_')[-1] if name.split('_')[1] in ('regex',) else name[2:], []).append(pat)
    free = set()
    lt_free_types.produced = set()      # the types ply's token() can return: those with a rule
    for t in Lexer.tokens:
        pats = rules.get(t)
        if pats is None and t in Lexer.keywords_dict.values():
            pats = rules.get('ID')
        if pats:
            lt_free_types.produced.add(t)
        if pats and not any(cc.pattern_may_match(p_, re.VERBOSE, LT) for p_ in pats):
            free.add(t)
    return free


def token_bookkeeping(module):
    """Lexer.get_lexer_token: every token ply returns gets its column from the line-start table as it stands
    *before* the token, and then the table is advanced over the line terminators inside the token -- unless the
    token's type is one whose pattern provably cannot match a line terminator."""
    import z3
    from vf.pyvc.dsl import SBool
    cs = []
    rec = {}
    free = sorted(lt_free_types(module))
    alltypes = sorted(lt_free_types.produced)
    for kind in ('token', 'end of input'):
        class LexerSelf(object):
            def __init__(self, kind=kind):
                self.kind = kind

            def make(self, name):
                rec.clear()
                rec['log'] = []
                o = PObj(module.Lexer, name='self')
                inner = PObj(object, name='plylexer')
                tok = None
                if self.kind == 'token':
                    tok = PObj(object, name='tok')
                    tok.fields.update(type=Str.fresh('tok_type'), value=Str.fresh('tok_value'), lexpos=Int.fresh('tok_lexpos'),
                                      lineno=Int.fresh('tok_lineno'))
                rec['tok'] = tok
                inner.fields['token'] = PExt('ply.lex.Lexer.token', lambda e, a, k: tok)

                def colno(e, a, k):
                    rec['log'].append(('colno', a[0]))
                    rec['col'] = Int.fresh('colno')
                    return rec['col']

                def upd(e, a, k):
                    rec['log'].append(('update', a[0]))
                o.fields.update(lexer=inner, _get_colno=PExt('Lexer._get_colno', colno), _update_newline_idx=PExt('Lexer._update_newline_idx', upd))
                return o

        def one_of(eng, ty, names):
            t = ty.t if hasattr(ty, 't') else z3.StringVal(ty)
            return SBool(z3.Or(*[t == z3.StringVal(n) for n in names]))
        if kind == 'token':
            req = ['declared_type(the_token().type)']
            ens = ['result is the_token()', 'call(0, "colno")', 'result.colno is column()', 'calls() <= 2',
                   'call(1, "update") or (calls() == 1 and lt_free(result.type))']
        else:
            req = []
            ens = ['result is None', 'calls() == 0']
        cs.append(Contract(
            MODULE + ':Lexer.get_lexer_token', params={'self': LexerSelf()}, requires=req, ensures=ens,
            env={'the_token': Helper(lambda e: rec['tok']), 'calls': Helper(lambda e: len(rec['log'])),
                 'call': Helper(lambda e, i, what: len(rec['log']) > i and rec['log'][i][0] == what and rec['log'][i][1] is rec['tok']),
                 'column': Helper(lambda e: rec.get('col')),
                 'lt_free': Helper(lambda e, ty: one_of(e, ty, free)), 'declared_type': Helper(lambda e, ty: one_of(e, ty, alltypes))},
            notes=kind))
    return cs

"""Sidecar contracts: Parser.__init__ forwards its flags unchanged to Lexer.build / ply.yacc.yacc and
Parser.parse forwards `tracking` / `debug` unchanged (property C17).  The callees are external
(PExt) and record the keyword arguments they receive."""
from vf.pyvc.dsl import Contract, Obj, Const, OneOf, Helper, PExt, PObj, Str, Bool, SBool

MODULE = 'calmjs.parse.parsers.es5'


def build(module):
    rec = {}

    def reset():
        rec.clear()

    def lexer_ctor(e, a, k):
        rec['Lexer'] = dict(k)
        lx = PObj(object, name='lexer')

        def build(e2, a2, k2):
            rec['build'] = dict(k2)
        lx.fields['build'] = PExt('Lexer.build', build)
        lx.fields['tokens'] = ('T',)
        return lx
    ply = PObj(object, name='ply')
    yacc = PObj(object, name='ply.yacc')

    def yacc_fn(e, a, k):
        rec['yacc'] = dict(k)
        return PObj(object, name='LRParser')
    yacc.fields['yacc'] = PExt('ply.yacc.yacc', yacc_fn)
    ply.fields['yacc'] = yacc

    def same(eng, what, key, value):
        got = rec.get(what, {}).get(key, '<missing>')
        if got is value:
            return True
        try:
            r = eng.compare(__import__('ast').Eq(), got, value)
        except Exception:
            return False
        return r
    env = {'__reset__': reset, 'Lexer': PExt('Lexer', lexer_ctor), 'ply': ply, 'forwarded': Helper(same)}
    SELF = Obj(module.Parser, {})
    B = OneOf(Const(True), Const(False))
    cs = [Contract(
        MODULE + ':Parser.__init__',
        params={'self': SELF, 'lex_optimize': B, 'lextab': Str, 'yacc_optimize': B, 'yacctab': Str,
                'yacc_debug': B, 'yacc_tracking': B, 'with_comments': B, 'asttypes': Const('ASTTYPES')},
        ensures=["forwarded('Lexer', 'with_comments', with_comments)", "forwarded('build', 'optimize', lex_optimize)",
                 "forwarded('build', 'lextab', lextab)", "forwarded('yacc', 'optimize', yacc_optimize)",
                 "forwarded('yacc', 'tabmodule', yacctab)", "forwarded('yacc', 'debug', yacc_debug)",
                 "forwarded('yacc', 'module', self)", "forwarded('yacc', 'start', 'program')",
                 'self.yacc_tracking is yacc_tracking', 'self.yacc_optimize is yacc_optimize', 'self.lex_optimize is lex_optimize',
                 "self.asttypes == 'ASTTYPES'"],
        env=env)]
    # Parser.parse
    rec2 = {}

    def parse_fn(e, a, k):
        rec2.clear()
        rec2.update(k)
        rec2['text'] = a[0]
        return PObj(object, name='tree')

    def same2(eng, key, value):
        got = rec2.get(key, '<missing>')
        if got is value:
            return True
        try:
            return eng.compare(__import__('ast').Eq(), got, value)
        except Exception:
            return False
    inner = PObj(object, name='LRParser')
    inner.fields['parse'] = PExt('LRParser.parse', parse_fn)

    class ParserSelf(object):
        def __init__(self, tracking):
            self.tracking = tracking

        def make(self, name):
            o = PObj(module.Parser, name='self')
            o.fields.update(parser=inner, lexer=PObj(object, name='lexer'), yacc_tracking=self.tracking,
                            yacc_optimize=not self.tracking)
            return o
    for tr in (True, False):
        cs.append(Contract(
            MODULE + ':Parser.parse', params={'self': ParserSelf(tr), 'text': Str, 'debug': B},
            ensures=["passed('tracking', %r)" % tr, "passed('debug', debug)", "passed('lexer', self.lexer)", "passed('text', text)"],
            env={'passed': Helper(same2)}, notes='yacc_tracking=%s' % tr))
    # Lexer.input: the text reaches ply's lexer unchanged, once
    lexmod = __import__('importlib').import_module('calmjs.parse.lexers.es5')
    rec3 = {}

    class LexerSelf(object):
        def make(self, name):
            rec3.clear()
            rec3['calls'] = 0
            o = PObj(lexmod.Lexer, name='self')
            inner = PObj(object, name='plylexer')

            def inp(e, a, k):
                rec3['calls'] += 1
                rec3['text'] = a[0]
            inner.fields['input'] = PExt('ply.lex.Lexer.input', inp)
            o.fields['lexer'] = inner
            return o

    def same3(eng, value):
        got = rec3.get('text', '<missing>')
        if got is value:
            return True
        try:
            return eng.compare(__import__('ast').Eq(), got, value)
        except Exception:
            return False
    cs.append(Contract('calmjs.parse.lexers.es5:Lexer.input', params={'self': LexerSelf(), 'text': Str},
                       ensures=['lexed(text)', 'input_calls() == 1'],
                       env={'lexed': Helper(same3), 'input_calls': Helper(lambda e: rec3['calls'])}))
    return cs, [], env

"""Sidecar contracts for the re-lexing path (property C05): Lexer.backtracked_token and Parser.p_error."""
from vf.pyvc.dsl import Contract, Obj, Const, OneOf, Helper, PExt, PObj, PList, Str, Int

LEX = 'calmjs.parse.lexers.es5'
PAR = 'calmjs.parse.parsers.es5'


class Tok(object):
    def __init__(self, ttype=None):
        self.ttype = ttype

    def make(self, name):
        o = PObj(object, name=name)
        o.fields.update(type=self.ttype if self.ttype else Str.fresh(name + '_type'), value=Str.fresh(name + '_value'),
                        lineno=Int.fresh(name + '_lineno'), lexpos=Int.fresh(name + '_lexpos'), colno=Int.fresh(name + '_colno'))
        return o

    def __repr__(self):
        return 'Tok(%s)' % (self.ttype or '*')


def build(lexmod, parmod):
    cs = []
    rec = {}
    # ---- backtracked_token
    class LexerSelf(object):
        def make(self, name):
            rec.clear()
            o = PObj(lexmod.Lexer, name='lexer')
            inner = PObj(object, name='plylexer')

            def skip(e, a, k):
                rec['skip'] = a[0]
            inner.fields['skip'] = PExt('ply.skip', skip)
            tok = Tok().make('relexed')
            rec['tok'] = tok
            rec['vp'] = Tok().make('valid_prev')

            def token(e, a, k):
                rec['next_tokens_at_call'] = len(o.fields['next_tokens'].val)
                o.fields['valid_prev_token'] = Tok().make('clobbered')
                return tok
            o.fields.update(lexer=inner, next_tokens=PList([Tok().make('pushed_back')]), valid_prev_token=rec['vp'],
                            token=PExt('Lexer.token', token))
            return o
    cs.append(Contract(
        LEX + ':Lexer.backtracked_token', params={'self': LexerSelf(), 'pos': Int},
        ensures=['skipped() == -pos', 'result is relexed()', 'self.valid_prev_token is saved_prev()', 'queue_len_at_call() == 0',
                 'len(self.next_tokens) == 0'],
        env={'skipped': Helper(lambda e: rec['skip']), 'relexed': Helper(lambda e: rec['tok']),
             'saved_prev': Helper(lambda e: rec['vp']), 'queue_len_at_call': Helper(lambda e: rec['next_tokens_at_call'])}))
    # ---- p_error
    rec2 = {}
    ESE = parmod.ECMASyntaxError

    for auto in ('semicolon', 'none'):
        for cur in ('DIV', 'DIVEQUAL', 'ID'):
            for prev in ('RBRACE', 'PLUSPLUS', 'MINUSMINUS', 'RPAREN', None):
                for relex in ('REGEX', 'DIV'):
                    class ParserSelf(object):
                        def __init__(self, auto=auto, cur=cur, prev=prev, relex=relex):
                            self.a, self.c, self.p, self.r = auto, cur, prev, relex

                        def make(self, name):
                            rec2.clear()
                            rec2['errok'] = 0
                            o = PObj(parmod.Parser, name='parser')
                            lx = PObj(object, name='lexer')
                            semi = Tok('AUTOSEMI').make('semi')
                            rec2['semi'] = semi
                            lx.fields['auto_semi'] = PExt('auto_semi', lambda e, a, k: semi if self.a == 'semicolon' else None)
                            lx.fields['cur_token'] = Tok(self.c).make('cur')
                            lx.fields['cur_token'].fields['value'] = {'DIV': '/', 'DIVEQUAL': '/=', 'ID': 'a'}[self.c]
                            lx.fields['valid_prev_token'] = Tok(self.p).make('prev') if self.p else None
                            rt = Tok(self.r).make('relexed')
                            rec2['relexed'] = rt

                            def back(e, a, k):
                                rec2['backtracked'] = k.get('pos', a[0] if a else None)
                                return rt
                            lx.fields['backtracked_token'] = PExt('backtracked_token', back)
                            ply = PObj(object, name='plyparser')

                            def errok(e, a, k):
                                rec2['errok'] += 1
                            ply.fields['errok'] = PExt('errok', errok)
                            o.fields.update(lexer=lx, parser=ply)
                            return o
                    relexes = auto == 'none' and cur in ('DIV', 'DIVEQUAL') and prev in ('RBRACE', 'PLUSPLUS', 'MINUSMINUS') and relex == 'REGEX'
                    if auto == 'semicolon':
                        ens, raises = ['result is semi()', 'errok_calls() == 1'], {}
                    elif relexes:
                        ens, raises = ['result is relexed()', 'errok_calls() == 1', 'backtracked() == %d' % len({'DIV': '/', 'DIVEQUAL': '/='}[cur])], {}
                    else:
                        ens, raises = ['False'], {'ECMASyntaxError': 'errok_calls() == 0'}
                    cs.append(Contract(
                        PAR + ':Parser.p_error', params={'self': ParserSelf(), 'token': Tok(cur)}, ensures=ens, raises=raises,
                        env={'semi': Helper(lambda e: rec2['semi']), 'relexed': Helper(lambda e: rec2['relexed']),
                             'errok_calls': Helper(lambda e: rec2['errok']), 'backtracked': Helper(lambda e: rec2.get('backtracked')),
                             '__extern__': {PAR + ':Parser._raise_syntax_error': PExt('_raise_syntax_error', None, raises=(ESE,), always_raises=True)}},
                        notes='auto_semi=%s cur=%s prev=%s relex=%s' % (auto, cur, prev, relex)))
    cs.extend(build_read_regex(lexmod))
    return cs, [], {}


def build_read_regex(lexmod):
    """Lexer._read_regex (a double in the contract of Lexer._token): ply is switched to the `regex` state, asked for exactly one token
    through get_lexer_token WHILE in that state, switched back to INITIAL, and that token is returned (or None at the end of input)."""
    cs = []
    rec = {}
    for end in (False, True):
        class LexerSelf(object):
            def __init__(self, end=end):
                self.end = end

            def make(self, name):
                rec.clear()
                rec.update(log=[], state='INITIAL')
                o = PObj(lexmod.Lexer, name='lexer')
                inner = PObj(object, name='plylexer')

                def begin(e, a, k):
                    rec['log'].append(('begin', a[0] if a else None))
                    rec['state'] = a[0] if a else None
                inner.fields['begin'] = PExt('ply.begin', begin)
                o.fields['lexer'] = inner
                tok = None if self.end else Tok().make('regex_token')
                rec['tok'] = tok

                def get(e, a, k):
                    rec['log'].append(('token', rec['state']))
                    return tok if len([x for x in rec['log'] if x[0] == 'token']) == 1 else Tok().make('second_call')
                o.fields['get_lexer_token'] = PExt('Lexer.get_lexer_token', get)
                return o
        cs.append(Contract(LEX + ':Lexer._read_regex', params={'self': LexerSelf()},
                           ensures=['result is the_token()', "log() == [('begin', 'regex'), ('token', 'regex'), ('begin', 'INITIAL')]"],
                           env={'the_token': Helper(lambda e: rec['tok']), 'log': Helper(lambda e: list(rec['log']))},
                           notes='end of input' if end else 'a token'))
    return cs

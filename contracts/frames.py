"""Ownership tables for the frame verification (vf/frame.py) -- the "modifies clauses" of C14 and C15.

owned_classes: classes whose instances are allocated inside the call being verified (checked by the
O-alloc obligations); a store to `self` in their methods is a store to call-local state.
allow: (function glob, base glob, reason) -- stores accepted on the strength of an assumed contract,
each listed in the evidence."""
import fnmatch

C14 = dict(
    modules=['calmjs.parse.unparsers.walker', 'calmjs.parse.ruletypes', 'calmjs.parse.handlers.core',
             'calmjs.parse.handlers.indentation', 'calmjs.parse.handlers.obfuscation', 'calmjs.parse.rules',
             'calmjs.parse.unparsers.base', 'calmjs.parse.unparsers.es5', 'calmjs.parse.factory'],
    owned_classes={'Dispatcher', 'Indentator', 'Obfuscator', 'Scope', 'CatchScope', 'NameGenerator'},
    # where the per-call objects must be allocated: class -> allowed enclosing function paths (globs)
    alloc_sites={
        'Indentator': ['indent.indentation_rule'],
        'Obfuscator': ['obfuscate.name_obfuscation_rules'],
        'Dispatcher': ['BaseUnparser.__call__', 'Obfuscator.walk'],
        'Scope': ['Obfuscator.__init__', 'Scope.nest', 'Scope.funcdecl'],
        'CatchScope': ['Scope.catchctx', 'Scope.nest'],
        'NameGenerator': ['Obfuscator.finalize', 'NameGenerator.__call__'],
    },
    allow=[
        ('RawParserUnparserFactory.build_unparse.unparse', 'kw', '**kw is a fresh dict for every call'),
        ('RawParserUnparserFactory.build_*', 'unparse', 'attributes of the function object defined just above (build time)'),
        ('RawParserUnparserFactory.build_*', 'parse', 'attributes of the function object defined just above (build time)'),
        ('SRFactory*', '*', 'class construction at import time'),
    ],
)

C15 = dict(
    modules=['calmjs.parse.lexers.es5', 'calmjs.parse.parsers.es5', 'calmjs.parse.asttypes', 'calmjs.parse.utils',
             'calmjs.parse.factory', 'calmjs.parse.lexers.tokens', 'calmjs.parse.exceptions'],
    owned_classes={'Lexer', 'Parser', 'Node'},
    fresh_factories={'AutoLexToken'},          # a class of lexers/tokens.py: AutoLexToken() allocates
    node_module='calmjs.parse.asttypes',
    alloc_sites={
        'Parser': ['parse'],
        'Lexer': ['Parser.__init__'],
    },
    allow=[
        ('Parser.p_*', 'p*', 'the YaccProduction and the values in its slots belong to the current parse (ply contract)'),
        ('Parser.p_*', 'items', 'alias of a slot value of the current production'),
        ('Parser.p_iteration_statement_3.wrap', 'node', 'node allocated two lines above in the same closure'),
        ('Lexer.t_*', 'token', 'the token ply.lex allocated for this match'),
        ('Lexer.get_lexer_token', 'token', 'the token ply.lex allocated for this match (returned by self.lexer.token())'),
        ('Lexer.token', 'token', 'the token this call obtained from _token()'),
        ('broken_string_token_handler', 'token', 'the error token ply allocated for this call'),
        ('RawParserUnparserFactory.build_unparse.unparse', 'kw', '**kw is a fresh dict for every call'),
        ('RawParserUnparserFactory.build_*', '*parse', 'attributes of the function object defined just above (build time)'),
        ('SRFactory*', '*', 'class construction at import time'),
        ('AstTypesFactory*', '*', 'class construction at import time'),
    ],
)


def allowed(table, func, base):
    for fglob, bglob, reason in table['allow']:
        if fnmatch.fnmatchcase(func, fglob) and fnmatch.fnmatchcase(base, bglob):
            return reason
    return None


# ---- per-attribute frames of the lexer state (vf/attrframe.py, vf/checks/attrobl.py) ---------------------
# entries: 'module:function glob' or ('module:function glob', "source of an enclosing if-test")

LEXER_STATE = dict(
    modules=['calmjs.parse.lexers.es5', 'calmjs.parse.parsers.es5', 'calmjs.parse.asttypes', 'calmjs.parse.lexers.tokens'],
    writes={
        # the token history the division/regex decision and ASI consult: only _set_tokens advances it
        'cur_token_real': ['lexers.es5:Lexer.__init__', 'lexers.es5:Lexer._set_tokens'],
        'cur_token': ['lexers.es5:Lexer.__init__', 'lexers.es5:Lexer._set_tokens'],
        'prev_token': ['lexers.es5:Lexer.__init__', 'lexers.es5:Lexer._set_tokens'],
        'valid_prev_token': ['lexers.es5:Lexer.__init__', 'lexers.es5:Lexer._set_tokens', 'lexers.es5:Lexer.backtracked_token'],
        'token_stack': ['lexers.es5:Lexer.__init__', 'lexers.es5:Lexer._set_tokens', 'lexers.es5:Lexer._get_update_token'],
        'next_tokens': ['lexers.es5:Lexer.__init__', 'lexers.es5:Lexer.backtracked_token', 'lexers.es5:Lexer._token',
                        'lexers.es5:Lexer.auto_semi'],
    },
    reads={},
    reflective_ok=['parsers.es5:Parser.p_identifier_name_string'],
    why={'*': 'the token history (cur/prev/real token, bracket stack, pushed-back tokens) is advanced only by the functions '
              'whose contracts say so; any other store invalidates the contracts of _token / auto_semi / backtracked_token'},
)

COMMENT_CHANNEL = dict(
    modules=['calmjs.parse.lexers.es5', 'calmjs.parse.parsers.es5', 'calmjs.parse.asttypes', 'calmjs.parse.lexers.tokens',
             'calmjs.parse.utils'],
    writes={
        'hidden_tokens': ['lexers.es5:Lexer.__init__', 'lexers.es5:Lexer.token',
                          ('lexers.es5:Lexer._token', 'tok.type in COMMENTS')],
        'with_comments': ['lexers.es5:Lexer.__init__'],
        'yield_comments': ['lexers.es5:Lexer.__init__'],
    },
    reads={
        # comment capture must not influence which tokens are produced or how they are parsed: the flag and the
        # collected comments are read only where comments are collected, handed over and attached
        'hidden_tokens': ['lexers.es5:Lexer.token', ('lexers.es5:Lexer._token', 'tok.type in COMMENTS'), 'asttypes:Node.set_comments'],
        'with_comments': [('lexers.es5:Lexer._token', 'tok.type in COMMENTS'), 'asttypes:Node.setpos'],
        'yield_comments': [('lexers.es5:Lexer._token', 'tok.type in COMMENTS')],
    },
    reflective_ok=['parsers.es5:Parser.p_identifier_name_string'],
    why={'*': 'parsing with comment capture accepts the same texts and yields the same tree: nothing outside the comment '
              'channel may depend on the capture flag or on the comments collected so far'},
)


# C10: the VLQ codec is a set of pure functions -- no store outside call-local values, no module-level mutable state
C10 = dict(modules=['calmjs.parse.vlq'], owned_classes=set(), alloc_sites={}, allow=[])

# C16: a Walker carries no state from one walk to the next (the module-level helpers and a reused instance agree)
C16 = dict(modules=['calmjs.parse.walkers'], owned_classes=set(), alloc_sites={}, allow=[])

"""Sidecar contract: Lexer.token hands the comments collected since the last token over to the token it
returns, once (property C13)."""
from vf.pyvc.dsl import Contract, Obj, Const, OneOf, Helper, PExt, PObj, PList, Str, Int

LEX = 'calmjs.parse.lexers.es5'


def build(lexmod):
    cs = []
    rec = {}
    for tok_kind in ('token', 'end of input'):
        for nhidden in (0, 1, 2):
            class LexerSelf(object):
                def __init__(self, tok_kind=tok_kind, nhidden=nhidden):
                    self.k, self.n = tok_kind, nhidden

                def make(self, name):
                    rec.clear()
                    o = PObj(lexmod.Lexer, name='lexer')
                    tok = PObj(object, name='tok') if self.k == 'token' else None
                    rec['tok'] = tok
                    hidden = PList([PObj(object, name='comment%d' % i) for i in range(self.n)])
                    rec['hidden'] = hidden
                    rec['items'] = list(hidden.val)
                    o.fields.update(hidden_tokens=hidden, _token=PExt('Lexer._token', lambda e, a, k: tok))
                    return o
            if tok_kind == 'token' and nhidden:
                ens = ['result is the_token()', 'result.hidden_tokens is collected()', 'same_items(result.hidden_tokens)',
                       'self.hidden_tokens is not collected()', 'len(self.hidden_tokens) == 0']
            else:
                ens = ['result is the_token()', 'self.hidden_tokens is collected()', 'same_items(self.hidden_tokens)']
            cs.append(Contract(
                LEX + ':Lexer.token', params={'self': LexerSelf()}, ensures=ens,
                env={'the_token': Helper(lambda e: rec['tok']), 'collected': Helper(lambda e: rec['hidden']),
                     'same_items': Helper(lambda e, l: len(l.val) == len(rec['items']) and all(a is b for a, b in zip(l.val, rec['items'])))},
                notes='%s, %d collected comments' % (tok_kind, nhidden)))
    return cs, [], {}

"""Sidecar contracts for vlq.encode_mappings / decode_mappings and their round trip P3 (property C10).

str.join / str.split are library functions; they are used here through this model, which is the only thing assumed:
    sep.join(parts) is a string J(sep, parts);   J(sep, parts).split(sep) == parts   if parts is not empty and no part contains sep,
                                                 J(sep, []).split(sep) == ['']       (the empty string splits into one empty piece).
"No part contains sep" is an obligation at every split: a part is either a string over the base64 alphabet (which contains
neither ',' nor ';' -- checked on the real constant) or a J(',', ...) of such strings (contains ',' but no ';').
encode_mappings / decode_mappings have no contracts of their own: their bodies (nested closures, generator expressions) are
executed by the VC generator with encode_vlqs / decode_vlqs replaced by their proved contracts, for every shape of up to 2
lines x up to 2 segments (segments are symbolic integer lists of any length >= 1: an empty segment would encode to '' and be
dropped -- the stated precondition); longer shapes follow the same way (the functions are maps over lines and segments)."""
import itertools

import z3

from vf.pyvc.dsl import Contract, Helper, PExt, PObj, PList, Seq, Int, SBool, SSeq, SEnc
from vf.pyvc.engine import PyRaise, PExc

MODULE = 'calmjs.parse.vlq'

HARNESS = """
def roundtrip_mappings(m):
    return decode_mappings(encode_mappings(m))
"""


def build(module, vlq_contracts, env0):
    alphabet = module.INT_B64
    assert ',' not in alphabet and ';' not in alphabet

    def contains_sep(part, sep):
        if isinstance(part, SEnc):
            return False                       # over the base64 alphabet: sep is not in it (asserted above)
        if isinstance(part, PObj) and part.name == 'joined':
            return part.fields['#sep'] == sep or any(contains_sep(x, sep) for x in part.fields['#parts'])
        if isinstance(part, str):
            return sep in part
        return True

    def join_model(eng, sep, parts):
        o = PObj(object, name='joined')
        o.fields['#sep'] = sep
        o.fields['#parts'] = list(parts)

        def split(e, a, k):
            s = a[0]
            if s != o.fields['#sep']:
                raise PyRaise(PExc(NotImplementedError, tag='split on another separator than the one joined with'))
            ps = o.fields['#parts']
            e.oblige('%s.split_model[no part contains %r]' % (e.c.funcname, s), z3.BoolVal(not any(contains_sep(x, s) for x in ps)), kind='model-side-condition')
            return PList(list(ps) if ps else [''])
        o.fields['split'] = PExt('str.split', split)
        return o
    env = dict(env0)
    env['__join_model__'] = join_model
    cs = []
    reg = dict((c.qualname, c) for c in vlq_contracts)

    def shape_type(shape):
        class M(object):
            def make(self, name):
                lines = []
                k = 0
                for nseg in shape:
                    segs = []
                    for _ in range(nseg):
                        segs.append(Seq(Int).fresh('seg%d' % k))
                        k += 1
                    lines.append(PList(segs))
                M.last = lines
                return PList(lines)

            def __repr__(self):
                return 'Mappings%r' % (shape,)
        return M

    def same_structure(eng, result, m):
        """result is a list of lists of integer sequences equal, piece by piece, to m"""
        rl = result.val if isinstance(result, PList) else list(result)
        ml = m.val if isinstance(m, PList) else list(m)
        if len(rl) != len(ml):
            return False
        conj = []
        for a, b in zip(rl, ml):
            al = a.val if isinstance(a, PList) else list(a)
            bl = b.val if isinstance(b, PList) else list(b)
            if len(al) != len(bl):
                return False
            for x, y in zip(al, bl):
                tx = x.t if isinstance(x, SSeq) else Seq(Int).unwrap(x)
                ty = y.t if isinstance(y, SSeq) else Seq(Int).unwrap(y)
                conj.append(tx == ty)
        return SBool(z3.And(*conj)) if conj else True
    env['same_structure'] = Helper(same_structure)
    shapes = [s for n in (1, 2) for s in itertools.product((0, 1, 2), repeat=n)]
    for shape in shapes:
        nseg = sum(shape)
        req = ['len(m[%d][%d]) >= 1' % (i, j) for i, n in enumerate(shape) for j in range(n)]
        uses = []
        for i, n in enumerate(shape):
            for j in range(n):
                seg = 'm[%d][%d]' % (i, j)
                uses += ['P2_decode_encode_list(%s, [])' % seg, 'unfold(encs(%s))' % seg, 'enc_len(rawspec(%s[0]))' % seg]
        cs.append(Contract(MODULE + ':roundtrip_mappings', source=HARNESS, params={'m': shape_type(shape)()}, requires=req,
                           ensures=['same_structure(result, m)'], uses={'entry': uses}, env=env, notes='lines with %s segments' % (shape,)))
    return cs, reg

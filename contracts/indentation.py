"""Sidecar contracts for calmjs.parse.handlers.indentation.Indentator (property C20).

Post-conditions from the statement of C20: a new line is followed by the indentation string the
caller gave, repeated exactly `level` times (nothing when that is empty); Indent/Dedent move the
level by one and print nothing."""
import z3

from vf.pyvc.dsl import Contract, SpecFn, Obj, OneOf, Const, Int, Str, STR_REPEAT

MODULE = 'calmjs.parse.handlers.indentation'


def build(module):
    Ind = module.Indentator
    IND = OneOf(Obj(Ind, {'indent_str': Const(None), '_level': Int}, name='own indent_str unset'),
                Obj(Ind, {'indent_str': Str, '_level': Int}, name='own indent_str given'))
    DISP = Obj(object, {'indent_str': Str, 'newline_str': Str})
    OPAQ = Const(None)
    env = {'str_repeat': SpecFn('str_repeat', STR_REPEAT, [Str, Int], Str)}
    seff = '(dispatcher.indent_str if self.indent_str is None else self.indent_str)'
    nonempty = 'len(%s) * self._level > 0' % seff
    frag = '(str_repeat(%s, self._level), None, None, None, None)' % seff
    handler_params = {'self': IND, 'dispatcher': DISP, 'node': OPAQ, 'before': OPAQ, 'after': OPAQ, 'prev': OPAQ}
    cs = [
        Contract(MODULE + ':Indentator.layout_handler_indent', params=dict(handler_params),
                 ensures=['self._level == old(self._level) + 1', 'result is None'],
                 modifies=['self._level'], env=env),
        Contract(MODULE + ':Indentator.layout_handler_dedent', params=dict(handler_params),
                 ensures=['self._level == old(self._level) - 1', 'result is None'],
                 modifies=['self._level'], env=env),
        Contract(MODULE + ':Indentator._generate_indents', params={'self': IND, 'dispatcher': DISP},
                 requires=['self._level >= 0'], yields=Str,
                 ensures=['self._level == old(self._level)'],
                 result_cases=[(nonempty, '[%s]' % frag), ('not (%s)' % nonempty, '[]')], env=env),
        Contract(MODULE + ':Indentator.layout_handler_newline', params=dict(handler_params),
                 requires=['self._level >= 0'], yields=Str,
                 ensures=['self._level == old(self._level)'],
                 result_cases=[(nonempty, '[(dispatcher.newline_str, 0, 0, None, None), %s]' % frag),
                               ('not (%s)' % nonempty, '[(dispatcher.newline_str, 0, 0, None, None)]')], env=env),
    ]
    return cs, [], env

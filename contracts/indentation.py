"""Sidecar contracts for calmjs.parse.handlers.indentation.Indentator (property C20).

Post-conditions from the statement of C20: a new line is followed by the indentation string the
caller gave, repeated exactly `level` times (nothing when that is empty); Indent/Dedent move the
level by one and print nothing."""
import z3

from vf.pyvc.dsl import Helper, Contract, SpecFn, Obj, OneOf, Const, Int, Str, STR_REPEAT

MODULE = 'calmjs.parse.handlers.indentation'


def build(module):
    Ind = module.Indentator
    IND = OneOf(Obj(Ind, {'indent_str': Const(None), '_level': Int}, name='own indent_str unset'),
                Obj(Ind, {'indent_str': Str, '_level': Int}, name='own indent_str given'))
    DISP = Obj(object, {'indent_str': Str, 'newline_str': Str})
    OPAQ = Const(None)
    env = {'str_repeat': SpecFn('str_repeat', STR_REPEAT, [Str, Int], Str)}
    seff = '(dispatcher.indent_str if self.indent_str is None else self.indent_str)'
    nonempty = 'len(%s) * self._level > 0' % seff
    frag = '(str_repeat(%s, self._level), None, None, None, None)' % seff
    handler_params = {'self': IND, 'dispatcher': DISP, 'node': OPAQ, 'before': OPAQ, 'after': OPAQ, 'prev': OPAQ}
    AROUND = OneOf(*[Const(v) for v in (None, '', 'x', '// c', '/* c */', '}', 'x\n', 'x\r', 'x\r\n', '\n', '\r\n', '\r', '\nx', '\r\nx', '\rx')])

    def nl_end(s, nl):
        return s is not None and (s[-len(nl):] in ('\r', '\n', nl))

    def nl_start(s, nl):
        return s is not None and (s[:len(nl)] in ('\r', '\n', nl))
    cs = [
        Contract(MODULE + ':Indentator.layout_handler_indent', params=dict(handler_params),
                 ensures=['self._level == old(self._level) + 1', 'result is None'],
                 modifies=['self._level'], env=env),
        Contract(MODULE + ':Indentator.layout_handler_dedent', params=dict(handler_params),
                 ensures=['self._level == old(self._level) - 1', 'result is None'],
                 modifies=['self._level'], env=env),
        Contract(MODULE + ':Indentator._generate_indents', params={'self': IND, 'dispatcher': DISP},
                 requires=['self._level >= 0'], yields=Str,
                 ensures=['self._level == old(self._level)'],
                 result_cases=[(nonempty, '[%s]' % frag), ('not (%s)' % nonempty, '[]')], env=env),
        Contract(MODULE + ':Indentator.layout_handler_newline', params=dict(handler_params),
                 requires=['self._level >= 0'], yields=Str,
                 ensures=['self._level == old(self._level)'],
                 result_cases=[(nonempty, '[(dispatcher.newline_str, 0, 0, None, None), %s]' % frag),
                               ('not (%s)' % nonempty, '[(dispatcher.newline_str, 0, 0, None, None)]')], env=env),
    ]
    # OptionalNewline: the texts around the marker range over a finite set of shapes (absent, empty, plain token, line
    # comment, brace, ending/starting with each newline string, white space); the level and both indentation strings stay
    # symbolic.  Precondition: the text token in front does not itself end in a line break (no token of an accepted program
    # does: strings and regex literals cannot contain one, comments end before it).  From the statement: the line break is
    # there (printed now or supplied by a neighbour), it is followed by the indentation of the current level, and nothing
    # else is printed.
    nlfrag = '(dispatcher.newline_str, 0, 0, None, None)'
    present = 'nl_end(before, dispatcher.newline_str) or nl_start(after, dispatcher.newline_str) or nl_end(prev, dispatcher.newline_str)'
    for nl in ('\n', '\r\n', '\r'):
        cs.append(Contract(
            MODULE + ':Indentator.layout_handler_newline_optional', notes='newline_str=%r' % nl,
            params={'self': IND, 'dispatcher': Obj(object, {'indent_str': Str, 'newline_str': Const(nl)}), 'node': OPAQ,
                    'before': OneOf(*[Const(v) for v in (None, '', 'x', '// c', '}')]),
                    'after': OneOf(*[Const(v) for v in (None, '', 'x', '}', '\n', '\nx', '\r\nx', '\rx')]),
                    'prev': OneOf(*[Const(v) for v in (None, '', 'x', '  ', '\n', 'x\n', 'x\r\n', 'x\r')])},
            requires=['self._level >= 0'], yields=Str,
            ensures=['self._level == old(self._level)',
                     'len(result) <= 2',
                     'len(result) != 2 or (result[0] == %s and result[1] == %s)' % (nlfrag, frag),
                     'len(result) != 1 or result[0] == %s or result[0] == %s' % (frag, nlfrag),
                     # indentation always follows the (printed or supplied) line break
                     'not (%s) or (len(result) >= 1 and result[-1] == %s)' % (nonempty, frag),
                     '(%s) or len(result) == 0 or (len(result) == 1 and result[0] == %s)' % (nonempty, nlfrag),
                     # the line break is really there
                     '(len(result) >= 1 and result[0] == %s) or %s' % (nlfrag, present),
                     # and is not doubled
                     'not (len(result) >= 1 and result[0] == %s) or not (%s)' % (nlfrag, present)],
            env=dict(env, nl_end=Helper(lambda e, s, nl: nl_end(s, nl)), nl_start=Helper(lambda e, s, nl: nl_start(s, nl)))))
    return cs, [], env

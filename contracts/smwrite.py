"""Sidecar contract of sourcemap.write (property C09): every explicitly positioned fragment is mapped, at the generated
column where it is written, to its own source file, line, column and name.

Views (ghost).  W = characters written so far on the current output line.  The segments appended to the mappings are
summed as a Source Map V3 decoder does: G (generated column within the current line), S (source index), L (source line,
0-based), C (source column, 0-based), NM (name index).  Book / Bookkeeper are modelled by the (previous, current) pair
semantics that contracts/sourcemap.py proves for Bookkeeper.__setattr__/__getattr__; Names by the index function its own
contract gives (update returns index - current, current := index).  Loop invariant (both loops):
    current(sink_column) = W, previous(sink_column) = G, current(source_line) = L + 1, current(source_column) = C + 1,
    current(sources) = S, current(names) = NM.
Per line piece (asserted at the end of every inner iteration): a piece written with truthy lineno and colno leaves
    G = W-before-the-piece, L = lineno - 1, C = colno - 1, S = index(source) if a source is given, NM = index(name) if named;
a piece without position appends a 1-tuple at G = W-before.  The fragments and the lines of a chunk are abstract
sequences (any number, any contents); text is z3 strings only for len / last character / rstrip (over-approximated)."""
import z3

from vf.pyvc.dsl import Contract, Loop, Const, Helper, PExt, PObj, PList, Str, Int, SInt, SStr, SBool
from vf.pyvc.engine import PAbsSeq, PyRaise, PExc

MODULE = 'calmjs.parse.sourcemap'
ATTRS = ('sink_column', 'source_line', 'source_column')


def build(mod):
    rec = {}
    IDX_S = z3.Function('source_index', z3.StringSort(), z3.IntSort())
    IDX_N = z3.Function('name_index', z3.StringSort(), z3.IntSort())
    IDX_S_NI = z3.Int('source_index_of_NotImplemented')
    LINE = z3.Function('line_piece', z3.StringSort(), z3.IntSort(), z3.StringSort())      # j-th piece of chunk.splitlines(True)
    NPIECES = z3.Function('line_pieces', z3.StringSort(), z3.IntSort())
    CHUNK = z3.Function('chunk_text', z3.IntSort(), z3.StringSort())
    LNO = z3.Function('frag_lineno', z3.IntSort(), z3.IntSort())
    CNO = z3.Function('frag_colno', z3.IntSort(), z3.IntSort())
    ONAME = z3.Function('frag_name', z3.IntSort(), z3.StringSort())
    SRC = z3.Function('frag_source', z3.IntSort(), z3.StringSort())

    def reset():
        rec.clear()
        rec['log'] = []

    # ---- Bookkeeper: (previous, current) pairs
    def k_get(e, obj, name):
        chk = name[:1] == '_'
        attr = name[1:] if chk else name
        if attr not in ATTRS:
            raise PyRaise(PExc(AttributeError, tag=name))
        p, c = obj.fields['#p_' + attr], obj.fields['#c_' + attr]
        return c if chk else SInt(c.t - p.t)

    def k_set(e, obj, name, v):
        chk = name[:1] == '_'
        attr = name[1:] if chk else name
        if attr not in ATTRS:
            raise PyRaise(PExc(AttributeError, tag=name))
        if not isinstance(v, (SInt, int)) or isinstance(v, bool):
            raise PyRaise(PExc(TypeError, tag='Bookkeeper'))
        v = v if isinstance(v, SInt) else SInt(z3.IntVal(v))
        if chk:
            obj.fields['#p_' + attr] = obj.fields['#c_' + attr] = v
        else:
            obj.fields['#p_' + attr] = obj.fields['#c_' + attr]
            obj.fields['#c_' + attr] = v

    def fresh_keeper_state(keeper, tag):
        for a in ATTRS:
            keeper.fields['#p_' + a] = Int.fresh('prev_%s_%s' % (a, tag))
            keeper.fields['#c_' + a] = Int.fresh('curr_%s_%s' % (a, tag))

    class BookT(object):
        def make(self, name):
            b = PObj(mod.Book, name='book')
            k = PObj(object, name='keeper')
            k.fields['__getattr_hook__'] = k_get
            k.fields['__setattr_hook__'] = k_set
            fresh_keeper_state(k, 'entry')
            b.fields.update(keeper=k, written_len=Int.fresh('written_len'), original_len=Int.fresh('original_len'))
            return b

        def havoc_obj(self, eng, obj, tag):
            fresh_keeper_state(obj.fields['keeper'], tag)
            obj.fields['written_len'] = Int.fresh('written_len_' + tag)
            obj.fields['original_len'] = Int.fresh('original_len_' + tag)

    # ---- Names: index function + current index
    class NamesT(object):
        def __init__(self, which):
            self.which = which

        def make(self, name):
            o = PObj(mod.Names, name=self.which)
            o.fields['#cur'] = Int.fresh('current_' + self.which)
            idx = IDX_S if self.which == 'sources' else IDX_N

            def update(e, a, k):
                x = a[0]
                if x is None:
                    return None
                t = IDX_S_NI if x is NotImplemented else idx(x.t if isinstance(x, SStr) else z3.StringVal(x))
                e.assume(t >= 0)
                r = SInt(t - o.fields['#cur'].t)
                o.fields['#cur'] = SInt(t)
                return r
            o.fields['update'] = PExt('Names.update', update)
            o.fields['__iter__'] = PExt('Names.__iter__', lambda e, a, k: [])
            return o

        def havoc_obj(self, eng, obj, tag):
            obj.fields['#cur'] = Int.fresh('current_%s_%s' % (self.which, tag))

    # ---- mappings / stream: recording doubles (the log holds what this iteration did)
    class MappingsT(object):
        def make(self, name):
            m = PObj(list, name='mappings')
            cur = PObj(list, name='current_line')
            cur.fields['append'] = PExt('list.append', lambda e, a, k: rec['log'].append(('seg', a[0])))
            m.fields['__getitem__'] = PExt('list.__getitem__', lambda e, a, k: cur)
            m.fields['append'] = PExt('list.append', lambda e, a, k: rec['log'].append(('push', a[0])))
            m.fields['__len__'] = PExt('list.__len__', lambda e, a, k: Int.fresh('n_lines'))
            return m

        def havoc_obj(self, eng, obj, tag):
            pass

    class StreamT(object):
        def make(self, name):
            s = PObj(object, name='stream')
            s.fields['write'] = PExt('stream.write', lambda e, a, k: rec['log'].append(('write', a[0])))
            return s

        def havoc_obj(self, eng, obj, tag):
            pass

    # ---- the fragments: (chunk, lineno, colno, original_name, source), every None / value combination
    KINDS = [(l, c, n, s) for l in (False, True) for c in (False, True) for n in (False, True) for s in ('none', 'str', 'NI')]

    def splitlines_model(e, recv, args, kwargs):
        """str.splitlines(True): some number of non-empty pieces (none for the empty string), whatever the text"""
        seq = PAbsSeq('lines', kinds=(1,), width=1, elem=lambda j, _k: SStr(LINE(recv.t, j)), elem_facts=lambda ln: [z3.Length(ln.t) > 0])
        e.assume(seq.n == NPIECES(recv.t))
        e.assume(z3.Implies(z3.Length(recv.t) == 0, seq.n == 0))
        e.assume(z3.Implies(z3.Length(recv.t) > 0, seq.n >= 1))
        return seq

    def frag_elem(i, kind):
        l, c, n, s = KINDS[kind]
        return (SStr(CHUNK(i)), SInt(LNO(i)) if l else None, SInt(CNO(i)) if c else None, SStr(ONAME(i)) if n else None,
                None if s == 'none' else NotImplemented if s == 'NI' else SStr(SRC(i)))

    class FragsT(object):
        def make(self, name):
            return PAbsSeq('stream_fragments', kinds=tuple(range(len(KINDS))), width=5, elem=frag_elem,
                           elem_facts=lambda f: [x.t >= 0 for x in f[1:3] if isinstance(x, SInt)])

        def __repr__(self):
            return 'Fragments'

    def kc(e, book, attr):
        return book.fields['keeper'].fields['#c_' + attr]

    def kp(e, book, attr):
        return book.fields['keeper'].fields['#p_' + attr]

    def segs(e):
        return [x[1] for x in rec['log'] if x[0] == 'seg']

    def idx_of(fn, x):
        if x is NotImplemented:
            return SInt(IDX_S_NI)
        return SInt(fn(x.t if isinstance(x, SStr) else z3.StringVal(x)))
    env = {'__reset__': reset, '__str_methods__': {'splitlines': splitlines_model}, 'kc': Helper(kc), 'kp': Helper(kp), 'cur': Helper(lambda e, o: o.fields['#cur']),
           'nseg': Helper(lambda e: len(segs(e))), 'seg': Helper(lambda e: segs(e)[0]),
           'pushed': Helper(lambda e: any(x[0] == 'push' for x in rec['log'])),
           'both': Helper(lambda e, a, b: False if (a is None or b is None) else SBool(z3.And(a.t > 0, b.t > 0))),
           'ends_line': Helper(lambda e, ln: SBool(z3.Or(z3.SuffixOf(z3.StringVal('\n'), ln.t), z3.SuffixOf(z3.StringVal('\r'), ln.t)))),
           'written': Helper(lambda e: [x[1] for x in rec['log'] if x[0] == 'write']),
           'source_index': Helper(lambda e, x: idx_of(IDX_S, x)), 'name_index': Helper(lambda e, x: idx_of(IDX_N, x)),
           'normalize_mappings': PExt('normalize_mappings', lambda e, a, k: a[0]),
           'logger': PObj(object, {'warning': PExt('logger.warning', lambda e, a, k: None), 'info': PExt('logger.info', lambda e, a, k: None)}, name='logger')}
    inv = ["kc(book, 'sink_column') == W", "kp(book, 'sink_column') == G", "kc(book, 'source_line') == L + 1",
           "kc(book, 'source_column') == C + 1", 'cur(sources) == S', 'cur(names) == NM', 'W >= 0']
    ghost_begin = ['W0 = W', 'ln0 = lineno', 'cn0 = colno']
    ghost_step = ['''
assert nseg() == 1 and len(written()) == 1 and written()[0] is line, 'one segment and one write per line piece'
G = G + seg()[0]
if len(seg()) >= 4:
    S = S + seg()[1]
    L = L + seg()[2]
    C = C + seg()[3]
if len(seg()) == 5:
    NM = NM + seg()[4]
assert G == W0, 'the segment sits at the generated column where the piece is written'
if ln0 is None or cn0 is None:
    assert len(seg()) == 1, 'a piece without position is recorded as unmapped'
else:
    assert len(seg()) == (5 if original_name is not None else 4), 'a positioned piece is mapped, named iff it has an original name'
    if ln0 > 0:
        assert L == ln0 - 1, 'source line'
    if cn0 > 0:
        assert C == cn0 - 1, 'source column'
    if source is not None:
        assert S == source_index(source), 'source file'
    if original_name is not None:
        assert NM == name_index(original_name), 'original name'
assert pushed() == ends_line(line), 'a new mapping line is started exactly after a piece that ends in CR or LF'
if ends_line(line):
    W = 0
    G = 0
else:
    W = W + len(line)
''']
    types = {'book': BookT(), 'sources': NamesT('sources'), 'names': NamesT('names'), 'mappings': MappingsT(), 'stream': StreamT(),
             'W': Int, 'G': Int, 'S': Int, 'L': Int, 'C': Int, 'NM': Int, 'lineno': 'same_kind', 'colno': 'same_kind',
             'name_id': 'same_kind', 'source_id': 'same_kind', 'source_line': 'same_kind'}
    outer = Loop(inv=inv, types=types, modifies=('book', 'sources', 'names'))
    # a chunk positioned at (lnf, cnf) that spans several lines: its piece after nl line ends is at (lnf + nl, 1)
    inner_inv = inv + ['nl >= 0',
                       'implies(both(lnf, cnf), lineno == lnf + nl and ((nl == 0 and colno == cnf) or (nl > 0 and colno == 1)))']
    step2 = [ghost_step[0] + '''
if ends_line(line):
    nl = nl + 1
''']
    inner = Loop(inv=inner_inv, types=dict(types, nl=Int), modifies=('book', 'sources', 'names'), index='j', ghost_begin=ghost_begin,
                 ghost_step=step2, ghost_pre=['lnf = lineno', 'cnf = colno', 'nl = 0'])
    c = Contract(
        MODULE + ':write',
        params={'stream_fragments': FragsT(), 'stream': StreamT(), 'normalize': Const(False), 'book': BookT(), 'sources': NamesT('sources'),
                'names': NamesT('names'), 'mappings': MappingsT()},
        ensures=['result[0] is mappings'],
        loops=[outer, inner], env=env,
        hints={'ghost_init': ["W = kc(book, 'sink_column')", "G = kp(book, 'sink_column')", "L = kc(book, 'source_line') - 1",
                              "C = kc(book, 'source_column') - 1", 'S = cur(sources)', 'NM = cur(names)']},
        requires=["kc(book, 'sink_column') >= 0"],
        notes='book / names / sources / mappings passed in (the advanced-usage form; the defaults build exactly such objects)')
    return [c]

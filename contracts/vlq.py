"""Sidecar contracts for calmjs.parse.vlq (property C10).  /repo is not edited.

Post-conditions come from the Source Map V3 rule in spec/sourcemap_v3.py; loop
invariants, ghost state and lemma uses are attached to the real functions by name
and loop ordinal.  Spec functions are opaque; `unfold(...)` reveals one instance.
"""
import z3

from vf.pyvc.dsl import (Contract, Loop, Lemma, SpecFn, Alphabet, EncStr, Int, Bool, Str, Seq, ListOf)
from spec import sourcemap_v3 as v3

MODULE = 'calmjs.parse.vlq'
I = z3.IntSort()
S = z3.SeqSort(I)
E = z3.Empty(S)


# Glue code (NOT repo code): the property statements as compositions of the real functions.
# Verified modularly: every call below is replaced by the callee's contract.
HARNESS = """
def roundtrip_int(i):
    return decode_vlq(encode_vlq(i))


def roundtrip_list(ints):
    return decode_vlqs(encode_vlqs(ints))


def roundtrip_str(s, xs):
    return encode_vlqs(decode_vlqs(s))
"""


def build(module):
    """module: the real calmjs.parse.vlq imported from the scratch copy."""
    B64 = Alphabet('b64', module.INT_B64, module.B64_INT)   # raises if not a bijection

    env = {
        'B64': B64,
        'rawspec': SpecFn('rawspec', v3.z_rawspec, [Int], Int),
        'unraw': SpecFn('unraw', v3.z_unraw, [Int], Int),
        'enc': SpecFn('enc', v3.enc, [Int], Seq(Int), body=v3.enc_body),
        'encC': SpecFn('encC', v3.encC, [Int], Seq(Int), body=v3.encC_body),
        'encs': SpecFn('encs', v3.encs, [Seq(Int)], Seq(Int), body=v3.encs_body),
        'decI': SpecFn('decI', v3.decI, [Seq(Int), Int, Int, Int], Seq(Int), body=v3.decI_body),
        'digits': SpecFn('digits', lambda t: t, [EncStr(B64)], Seq(Int)),
    }

    # ---- lemmas about the spec functions (induction, hand-instantiated) -------------------
    r, q, i, acc, pw = z3.Ints('r q i acc pw')
    pre, post, xs = z3.Const('pre', S), z3.Const('post', S), z3.Const('xs', S)

    def st_enc_last(r):
        e = v3.encC(r)
        n = z3.Length(e)
        return z3.Implies(r > 0, z3.And(
            n >= 1,
            v3.enc(r) == z3.Concat(z3.Extract(e, z3.IntVal(0), n - 1), z3.Unit(e[n - 1] % 32))))
    L_enc_last = Lemma('enc_last', [r], st_enc_last, measure=lambda r: r, ih=[(r / 32,)],
                       uses=[v3.enc(r) == v3.enc_body(r), v3.encC(r) == v3.encC_body(r),
                             v3.encC(r / 32) == v3.encC_body(r / 32)],
                       doc='canonical digits = all-continuation digits with the last continuation bit cleared')

    def st_encC_range(r, q):
        e = v3.encC(r)
        return z3.Implies(z3.And(q >= 0, q < z3.Length(e)), z3.And(e[q] >= 32, e[q] < 64))
    L_encC_range = Lemma('encC_range', [r, q], st_encC_range, measure=lambda r, q: r, ih=[(r / 32, q - 1)],
                         uses=[v3.encC(r) == v3.encC_body(r)],
                         doc='every all-continuation digit is in [32, 64)')

    def st_enc_len(r):
        return z3.Length(v3.enc(r)) >= 1
    L_enc_len = Lemma('enc_len', [r], st_enc_len, uses=[v3.enc(r) == v3.enc_body(r)],
                      doc='an encoding is never empty')

    L_unraw = Lemma('unraw_raw', [i], lambda i: v3.z_unraw(v3.z_rawspec(i)) == i,
                    doc='sign-in-LSB transform is inverted by the decoder transform (L2)')

    # rt1: decoding, from the position where enc(r) starts, yields unraw(acc + r*pw) and resumes afterwards
    def ds_of(r, pre, post):
        return z3.Concat(pre, v3.enc(r), post)

    def st_rt1(r, pre, post, acc, pw):
        ds = ds_of(r, pre, post)
        k = z3.Length(pre)
        return z3.Implies(z3.And(r >= 0, pw >= 1, acc >= 0),
                          v3.decI(ds, k, acc, pw) == z3.Concat(
                              z3.Unit(v3.z_unraw(acc + r * pw)),
                              v3.decI(ds, k + z3.Length(v3.enc(r)), z3.IntVal(0), z3.IntVal(1))))
    ds = ds_of(r, pre, post)
    kk = z3.Length(pre)
    L_rt1 = Lemma('rt1', [r, pre, post, acc, pw], st_rt1, measure=lambda r, pre, post, acc, pw: r,
                  ih=[(r / 32, z3.Concat(pre, z3.Unit(r % 32 + 32)), post, v3.z_mul(r % 32, pw) + acc, pw * 32)],
                  uses=[v3.enc(r) == v3.enc_body(r),
                        v3.decI(ds, kk, acc, pw) == v3.decI_body(ds, kk, acc, pw),
                        (r % 32) * pw + (r / 32) * (pw * 32) == r * pw],
                  cases=[r < 32, r >= 32],
                  doc='one group decodes to its value wherever it sits in the string')
    L_arith = Lemma('weight_identity', [r, pw], lambda r, pw: (r % 32) * pw + (r / 32) * (pw * 32) == r * pw,
                    doc='little-endian base-32 split (the only nonlinear fact used)')

    # P1: decode(encode(i)) = i
    def st_p1(i):
        e = v3.enc(v3.z_rawspec(i))
        return v3.decI(e, z3.IntVal(0), z3.IntVal(0), z3.IntVal(1)) == z3.Unit(i)
    e_i = v3.enc(v3.z_rawspec(i))
    n_i = z3.Length(e_i)
    L_p1 = Lemma('P1_decode_encode', [i], st_p1,
                 uses=[st_rt1(v3.z_rawspec(i), E, E, z3.IntVal(0), z3.IntVal(1)),
                       v3.decI(e_i, n_i, z3.IntVal(0), z3.IntVal(1)) == v3.decI_body(e_i, n_i, z3.IntVal(0), z3.IntVal(1)),
                       L_unraw.instance(i)],
                 doc='P1: decoding the encoding of any integer gives back that integer')

    # P2: decode(encode list) = list, generalised over a prefix
    def st_p2(xs, pre):
        ds2 = z3.Concat(pre, v3.encs(xs))
        return v3.decI(ds2, z3.Length(pre), z3.IntVal(0), z3.IntVal(1)) == xs
    x0 = xs[0]
    tl = z3.Extract(xs, z3.IntVal(1), z3.Length(xs) - 1)
    e0 = v3.enc(v3.z_rawspec(x0))
    ds2 = z3.Concat(pre, v3.encs(xs))
    L_p2 = Lemma('P2_decode_encode_list', [xs, pre], st_p2, measure=lambda xs, pre: z3.Length(xs),
                 ih=[(tl, z3.Concat(pre, e0))],
                 uses=[v3.encs(xs) == v3.encs_body(xs),
                       st_rt1(v3.z_rawspec(x0), pre, v3.encs(tl), z3.IntVal(0), z3.IntVal(1)),
                       L_unraw.instance(x0), L_enc_len.instance(v3.z_rawspec(x0)),
                       v3.decI(ds2, z3.Length(pre), z3.IntVal(0), z3.IntVal(1)) ==
                       v3.decI_body(ds2, z3.Length(pre), z3.IntVal(0), z3.IntVal(1))],
                 cases=[z3.Length(xs) == 0, z3.Length(xs) > 0],
                 doc='P2: decoding the concatenated encodings of a list gives back the list')

    # P4: on canonical strings (= images of the canonical encoder) encode(decode(s)) = s
    def st_p4(xs):
        ds4 = v3.encs(xs)
        return v3.encs(v3.decI(ds4, z3.IntVal(0), z3.IntVal(0), z3.IntVal(1))) == ds4
    L_p4 = Lemma('P4_encode_decode_canonical', [xs], st_p4, uses=[st_p2(xs, E)],
                 doc='P4: re-encoding the decoding of a canonical string reproduces it')

    lemmas = [L_arith, L_unraw, L_enc_len, L_enc_last, L_encC_range, L_rt1, L_p1, L_p2, L_p4]
    for l in lemmas:
        env[l.name] = l

    env_vlqs = dict(env)
    env_vlqs['__flatmap__'] = (lambda x: v3.enc(v3.z_rawspec(x)), v3.encs)

    contracts = []
    contracts.append(Contract(
        MODULE + ':encode_vlq',
        params={'i': Int},
        result=EncStr(B64),
        ensures=['digits(result) == enc(rawspec(i))'],
        loops=[Loop(
            ghost_pre=['raw0 = raw'],
            inv=['raw >= 0', 'raw0 >= 16', 'result + encC(raw) == encC(raw0)'],
            variant='raw',
            types={'result': ListOf(Int)},
        )],
        uses={'loop0.body': ['unfold(encC(raw))'],
              'loop0.exit': ['unfold(encC(raw))', 'enc_last(raw0)'],
              'map.elem': ['encC_range(raw0, _j)'],
              'post': ['unfold(enc(rawspec(i)))']},
        env=env,
    ))
    contracts.append(Contract(
        MODULE + ':encode_vlqs',
        params={'ints': Seq(Int)},
        result=EncStr(B64),
        ensures=['digits(result) == encs(ints)'],
        env=env_vlqs,
    ))
    contracts.append(Contract(
        MODULE + ':vlq_decoder',
        params={'s': EncStr(B64)},
        yields=Int,
        pow2=('shift',),
        ensures=['result == decI(digits(s), 0, 0, 1)'],
        loops=[Loop(
            index='k',
            inv=['i >= 0', 'shift >= 0', 'i < pow2of(shift)',
                 '_out + decI(digits(s), k, i, pow2of(shift)) == decI(digits(s), 0, 0, 1)'],
        )],
        uses={'loop0.body': ['unfold(decI(digits(s), k, i, pow2of(shift)))'],
              'loop0.exit': ['unfold(decI(digits(s), k, i, pow2of(shift)))']},
        env=env,
    ))
    contracts.append(Contract(
        MODULE + ':decode_vlq',
        params={'s': EncStr(B64)},
        result=Int,
        requires=['len(decI(digits(s), 0, 0, 1)) > 0'],
        ensures=['result == decI(digits(s), 0, 0, 1)[0]'],
        env=env,
    ))
    contracts.append(Contract(
        MODULE + ':decode_vlqs',
        params={'s': EncStr(B64)},
        result=Seq(Int),
        ensures=['result == decI(digits(s), 0, 0, 1)'],
        env=env,
    ))
    # ---- property-level compositions: glue harnesses verified against the contracts above only
    contracts.append(Contract(
        MODULE + ':roundtrip_int', source=HARNESS,
        params={'i': Int},
        ensures=['result == i'],
        uses={'entry': ['P1_decode_encode(i)']},
        env=env,
    ))
    contracts.append(Contract(
        MODULE + ':roundtrip_list', source=HARNESS,
        params={'ints': Seq(Int)},
        ensures=['result == ints'],
        uses={'entry': ['P2_decode_encode_list(ints, [])']},
        env=env,
    ))
    contracts.append(Contract(
        MODULE + ':roundtrip_str', source=HARNESS,
        params={'s': EncStr(B64), 'xs': Seq(Int)},
        requires=['digits(s) == encs(xs)'],     # s is canonical: the image of the canonical encoder (ghost xs)
        ensures=['result == s'],
        uses={'entry': ['P4_encode_decode_canonical(xs)']},
        env=env,
    ))
    return contracts, lemmas, env

"""Sidecar contracts for the Obfuscator of handlers/obfuscation.py (property C07): the glue between the printer's markers and
the symbol tables of contracts/scopes.py.  Each handler does exactly one thing to exactly the current scope:

  __init__             empty tables, a stack holding only the global scope (a fresh Scope without parent), options kept
  current_scope        the top of the stack
  push_scope / push_catch   one funcdecl / catchctx call on the current scope; the new scope is pushed (the write-only `scopes` table and `Scope.node` are bookkeeping nothing
                            reads: left unconstrained)
  pop_scope            the top of the stack is removed and closed, once
  declare              the spelling of the node is declared in the current scope, once
  register_reference   the node is mapped to the current scope, and its spelling referenced there once (count defaulted)
  shadow_reference     the spelling of the function's identifier is referenced in the current scope, once
  walk                 the private dispatcher gets exactly these handlers (ResolveFuncName only when function names must not be
                       shadowed), the caller's definitions and no token handler; its walk over the node is exhausted
  prewalk_hook         walk, then finalize, in this order; the node is returned
Scopes, dicts and the dispatcher are recording doubles (ghost log); Obfuscator.resolve / finalize are in contracts/obfuscation.py."""
from vf.pyvc.dsl import Contract, Const, OneOf, Helper, PExt, PObj, PList, Str, Bool, Obj
from vf.pyvc.engine import PDict, PBound

MOD = 'calmjs.parse.handlers.obfuscation'


def build(mod):
    cs = []
    rec = {}

    def reset():
        rec.clear()
        rec['log'] = []

    def calls(e, what):
        return len([x for x in rec['log'] if x[0] == what])

    def entry(what):
        xs = [x for x in rec['log'] if x[0] == what]
        return xs[0] if xs else None

    def arg_is(e, what, i, v):
        x = entry(what)
        if x is None or len(x[1]) <= i:
            return False
        a = x[1][i]
        return a is v or (isinstance(a, str) and a == v)

    def nargs(e, what):
        x = entry(what)
        return -1 if x is None else len(x[1]) + len(x[2])
    env = {'__reset__': reset, 'calls': Helper(calls), 'arg_is': Helper(arg_is), 'nargs': Helper(nargs),
           'new_scope': Helper(lambda e: rec.get('new_scope')), 'log_order': Helper(lambda e: [x[0] for x in rec['log']])}

    def scope_double(name):
        sc = PObj(object, name=name)

        def make_child(kind):
            def f(e, a, k):
                rec['log'].append((kind, list(a), dict(k)))
                rec['new_scope'] = PObj(object, name='new_scope')
                return rec['new_scope']
            return f
        sc.fields['funcdecl'] = PExt('Scope.funcdecl', make_child('funcdecl'))
        sc.fields['catchctx'] = PExt('Scope.catchctx', make_child('catchctx'))
        for m in ('close', 'declare', 'reference'):
            sc.fields[m] = PExt('Scope.' + m, lambda e, a, k, m=m: rec['log'].append((m, list(a), dict(k))))
        return sc

    class Stack(object):
        """a stack of n >= 1 scopes: only the last one may be touched"""
        def __init__(self, n):
            self.n = n

        def make(self, name):
            below = [PObj(object, name='outer_scope%d' % i) for i in range(self.n - 1)]      # no methods: any call on them is an error
            rec['top'] = scope_double('current_scope')
            return PList(below + [rec['top']])

        def __repr__(self):
            return 'stack of %d' % self.n

    class NodeT(object):
        def make(self, name):
            n = PObj(object, name='node')
            n.fields['value'] = Str.fresh('node_value')
            ident = PObj(object, name='identifier')
            ident.fields['value'] = Str.fresh('function_name')
            n.fields['identifier'] = ident
            return n

        def __repr__(self):
            return 'Node'

    class Table(object):
        def make(self, name):
            return PDict()

        def __repr__(self):
            return 'dict'
    env['top'] = Helper(lambda e: rec['top'])
    DISP = Const(None)
    for n in (1, 3):
        def obf(**extra):
            fields = {'stack': Stack(n), 'scopes': Table(), 'identifiers': Table()}
            fields.update(extra)
            return Obj(mod.Obfuscator, fields)
        note = 'stack of %d' % n
        cs.append(Contract(MOD + ':Obfuscator.current_scope', params={'self': obf()}, ensures=['result is top()'], env=env, notes=note))
        for meth, made in (('push_scope', 'funcdecl'), ('push_catch', 'catchctx')):
            cs.append(Contract(MOD + ':Obfuscator.%s' % meth, params={'self': obf(), 'dispatcher': DISP, 'node': NodeT()},
                               ensures=["calls('%s') == 1 and calls('%s') == 0" % (made, 'catchctx' if made == 'funcdecl' else 'funcdecl'),
                                        "arg_is('%s', 0, node) and nargs('%s') == 1" % (made, made),
                                        
                                        'len(self.stack) == %d and self.stack[-1] is new_scope() and self.stack[-2] is top()' % (n + 1),
                                        "calls('close') == 0 and calls('declare') == 0 and calls('reference') == 0", 'len(self.identifiers) == 0'],
                               modifies=['self.stack', 'self.scopes'], env=env, notes=note))
        cs.append(Contract(MOD + ':Obfuscator.pop_scope', params={'self': obf(), 'dispatcher': DISP, 'node': NodeT()},
                           ensures=["log_order() == ['close']", "nargs('close') == 0", 'len(self.stack) == %d' % (n - 1),
                                    'len(self.identifiers) == 0'],
                           modifies=['self.stack'], env=env, notes=note))
        cs.append(Contract(MOD + ':Obfuscator.declare', params={'self': obf(), 'dispatcher': DISP, 'node': NodeT()},
                           ensures=["log_order() == ['declare']", "arg_is('declare', 0, node.value) and nargs('declare') == 1",
                                    'len(self.stack) == %d and len(self.identifiers) == 0' % n], env=env, notes=note))
        cs.append(Contract(MOD + ':Obfuscator.register_reference', params={'self': obf(), 'dispatcher': DISP, 'node': NodeT()},
                           ensures=["log_order() == ['reference']", "arg_is('reference', 0, node.value) and nargs('reference') == 1",
                                    'self.identifiers[node] is top()', 'len(self.identifiers) == 1',
                                    'len(self.stack) == %d' % n],
                           modifies=['self.identifiers'], env=env, notes=note))
        cs.append(Contract(MOD + ':Obfuscator.shadow_reference', params={'self': obf(), 'dispatcher': DISP, 'node': NodeT()},
                           ensures=["log_order() == ['reference']", "arg_is('reference', 0, node.identifier.value) and nargs('reference') == 1",
                                    'len(self.stack) == %d and len(self.identifiers) == 0' % n], env=env, notes=note))

    # ---- __init__ ----------------------------------------------------------------------------
    cs.append(Contract(MOD + ':Obfuscator.__init__', params={'self': Obj(mod.Obfuscator, {}), 'obfuscate_globals': Bool, 'shadow_funcname': Bool,
                                                            'reserved_keywords': Const(('abc', 'def'))},
                       ensures=['len(self.identifiers) == 0', 'len(self.stack) == 1 and self.stack[0] is self.global_scope',
                                'type(self.global_scope) is Scope and self.global_scope.parent is None',
                                'self.global_scope._closed is False and len(self.global_scope.referenced_symbols) == 0 and self.global_scope.children == []',
                                'self.obfuscate_globals == obfuscate_globals and self.shadow_funcname == shadow_funcname',
                                "self.reserved_keywords == ('abc', 'def')"], env=dict(env, Scope=mod.Scope)))
    cs.append(Contract(MOD + ':Obfuscator.__init__', params={'self': Obj(mod.Obfuscator, {})},
                       ensures=['self.obfuscate_globals is False and self.shadow_funcname is False and self.reserved_keywords == ()',
                                'len(self.stack) == 1 and self.stack[0] is self.global_scope'], env=env, notes='defaults'))

    # ---- walk --------------------------------------------------------------------------------
    import calmjs.parse.ruletypes as rt

    def dispatcher_model(e, a, k):
        rec['log'].append(('Dispatcher', list(a), dict(k)))
        rec['local'] = PObj(object, name='local_dispatcher')
        return rec['local']

    def walk_model(e, a, k):
        rec['log'].append(('walk', list(a), dict(k)))
        return PList(['fragment0', 'fragment1'])

    def dict_model(e, a, k):
        rec['log'].append(('dict', list(a), dict(k)))
        rec['defs'] = PObj(object, name='definitions_copy')
        return rec['defs']

    def handler(e, table, marker, obj, name):
        x = entry('Dispatcher')
        if x is None:
            return False
        t = x[2].get(table)
        t = t.val if isinstance(t, PDict) else t
        h = t.get(marker) if isinstance(t, dict) else None
        return isinstance(h, PBound) and h.recv is obj and h.name == name

    def table_size(e, table):
        x = entry('Dispatcher')
        t = x[2].get(table)
        return len(t.val if isinstance(t, PDict) else t)
    wenv = dict(env, Dispatcher=PExt('Dispatcher', dispatcher_model), walk=PExt('walk', walk_model), dict=PExt('dict', dict_model),
                handler=Helper(handler), table_size=Helper(table_size), rt=rt,
                dispatcher_kw=Helper(lambda e, k: entry('Dispatcher')[2].get(k, 'absent')), defs=Helper(lambda e: rec.get('defs')),
                local=Helper(lambda e: rec.get('local')))
    for shadow in (False, True):
        cs.append(Contract(MOD + ':Obfuscator.walk', params={'self': Obj(mod.Obfuscator, {'shadow_funcname': Const(shadow)}), 'dispatcher': Obj(object, {}), 'node': NodeT()},
                           ensures=["log_order() == ['dict', 'Dispatcher', 'walk']", "arg_is('dict', 0, dispatcher)",
                                    "nargs('Dispatcher') == 4 and dispatcher_kw('definitions') is defs() and dispatcher_kw('token_handler') is None",
                                    "handler('deferrable_handlers', rt.Declare, self, 'declare') and handler('deferrable_handlers', rt.Resolve, self, 'register_reference')",
                                    "table_size('deferrable_handlers') == 2",
                                    "handler('layout_handlers', rt.PushScope, self, 'push_scope') and handler('layout_handlers', rt.PopScope, self, 'pop_scope')",
                                    "handler('layout_handlers', rt.PushCatch, self, 'push_catch') and handler('layout_handlers', rt.PopCatch, self, 'pop_scope')",
                                    ("table_size('layout_handlers') == 4" if shadow else
                                     "handler('layout_handlers', rt.ResolveFuncName, self, 'shadow_reference') and table_size('layout_handlers') == 5"),
                                    "arg_is('walk', 0, local()) and arg_is('walk', 1, node) and nargs('walk') == 2",
                                    "result == ['fragment0', 'fragment1']"],
                           env=wenv, notes='shadow_funcname=%s' % shadow))

    # ---- prewalk_hook ------------------------------------------------------------------------
    class Hooked(object):
        def make(self, name):
            o = PObj(mod.Obfuscator, name='self')
            o.fields['walk'] = PExt('Obfuscator.walk', lambda e, a, k: rec['log'].append(('walk', list(a), dict(k))))
            o.fields['finalize'] = PExt('Obfuscator.finalize', lambda e, a, k: rec['log'].append(('finalize', list(a), dict(k))))
            return o

        def __repr__(self):
            return 'Obfuscator'
    cs.append(Contract(MOD + ':Obfuscator.prewalk_hook', params={'self': Hooked(), 'dispatcher': Obj(object, {}), 'node': NodeT()},
                       ensures=["log_order() == ['walk', 'finalize']", "arg_is('walk', 0, dispatcher) and arg_is('walk', 1, node) and nargs('walk') == 2",
                                "nargs('finalize') == 0", 'result is node'], env=env))
    return cs
